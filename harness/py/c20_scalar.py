#!/usr/bin/env python3
"""C20, clause "the scalar bindings return what the C++ library returns".

Runs inside the python the real `imath` module was built for.

  c20_scalar.py <ref-binary> <seed> <cases-per-entry> <out.json>

`ref-binary` is harness/py/c20_scalar_ref.cpp compiled against the CURRENT tree: a table
(python class, python method, argument types) -> C++ library expression.  For every table entry the
python binding is called on generated arguments (datasets `nice` and `edge`: zeros, signed zeros,
denormals, huge values, inf, nan, type min/max, 64-bit integers beyond 2^53), the arguments AS STORED in the
python objects (read back component by component) are sent to the reference binary, and the two results
are compared bit for bit (float = 32-bit pattern, double = 64-bit pattern, integers exactly; any NaN
equals any NaN; raise must match raise).
"""
import sys, os, re, json, struct, math, random, subprocess, traceback, faulthandler

faulthandler.enable()
import imath

F32_MAX = 3.4028234663852886e38


def f32(x):
    try:
        return struct.unpack("<f", struct.pack("<f", x))[0]
    except OverflowError:
        return math.copysign(float("inf"), x)


TYPE_RE = re.compile(r"^(V2|V3|V4|M22|M33|M44|Quat|Color3|Color4|Euler|Frustum|Line3|Plane3|Box2|Box3|Shear6)(f|d|s|i64|i|c)$")
NCOMP = {"V2": 2, "V3": 3, "V4": 4, "M22": 4, "M33": 9, "M44": 16, "Quat": 4, "Color3": 3, "Color4": 4, "Shear6": 6}
PRIM = {"f": "f", "d": "d", "s": "s", "i": "i", "l": "i64", "c": "c", "b": "b", "z": "i"}
INT_RANGE = {"s": (-32768, 32767), "i": (-2 ** 31, 2 ** 31 - 1), "i64": (-2 ** 63, 2 ** 63 - 1), "c": (0, 255)}
EDGE_F32 = [0.0, -0.0, 1.0, -1.0, 0.5, 2.0, 1e-30, -1e-30, 1e30, -1e30, float("inf"), float("-inf"), float("nan"),
            F32_MAX, -F32_MAX, 1.1754943508222875e-38, 1.401298464324817e-45, 16777216.0, 0.1, 3.0, 1e-20, 1e19]
EDGE_F64 = EDGE_F32 + [1e300, -1e300, 1e-300, 5e-324, 1.7976931348623157e308, 1e-160, 1e154]


def gen_num(base, rng, ds, role):
    if base == "b":
        return bool(rng.getrandbits(1))
    if base in ("f", "d"):
        if role == "unit":
            v = rng.uniform(0.0, 1.0)
        elif role == "moderate" or ds == "nice" or rng.random() < 0.3:
            v = rng.choice((-1.0, 1.0)) * rng.uniform(0.25, 8.0)
        else:
            v = rng.choice(EDGE_F32 if base == "f" else EDGE_F64)
        if role == "nonzero" and v == 0:
            v = 1.0
        return f32(v) if base == "f" else v
    lo, hi = INT_RANGE[base]
    if role == "index":
        return rng.randrange(0, 3)
    if role == "divisor":
        v = rng.randrange(2, 12)
        return -v if (lo < 0 and rng.random() < 0.4) else v
    if role == "moderate" or ds == "nice" or rng.random() < 0.3:
        v = rng.randrange(0, 12)
        return -v if (lo < 0 and rng.random() < 0.5) else v
    return rng.choice((0, 1, hi, lo, hi - 1, lo + 1, rng.randrange(lo, hi + 1), 2 ** 53 + 1 if hi > 2 ** 53 else hi // 3,
                       -(2 ** 62) - 3 if lo < -2 ** 62 else lo // 3))


def cls_of(t):
    return getattr(imath, t, None)


ORDERS = None


def gen(t, rng, ds, role):
    """-> python object of table type t"""
    global ORDERS
    if t == "Order":
        if ORDERS is None:
            ORDERS = sorted(imath.Eulerf.Order.values.items())
        return rng.choice(ORDERS)[1]
    if t in PRIM:
        return gen_num(PRIM[t], rng, ds, role)
    kind, suf = TYPE_RE.match(t).groups()
    cls = cls_of(t)
    if kind in NCOMP:
        n = NCOMP[kind]
        whole = rng.random()
        nums = [gen_num(suf, rng, ds, role) for _ in range(n)]
        if ds == "edge" and role not in ("divisor", "nonzero") and suf in ("f", "d") and kind[0] in "VQC":
            # whole-element failure inputs of the scalar operations: the zero vector, denormal-only and overflowing
            # vectors, axis-aligned, all components equal
            if whole < 0.12:
                nums = [0.0] * n
            elif whole < 0.2:
                nums = [rng.choice((5e-324, 1.401298464324817e-45, -1.401298464324817e-45) if suf == "d" else (1.401298464324817e-45, -1.401298464324817e-45))] * n
            elif whole < 0.28:
                nums = [rng.choice((1e30, 3e38) if suf == "f" else (1e200, 1e308))] * n
            elif whole < 0.36:
                k = rng.randrange(n)
                nums = [(nums[k] if i == k else 0.0) for i in range(n)]
        if kind.startswith("M") and ds == "edge" and whole < 0.15:
            d = int(kind[1])
            nums[d:2 * d] = nums[0:d]          # singular
        if suf == "i64":
            o = cls(*([0] * n))
            for name, v in zip("xyzw", nums):
                setattr(o, name, v)            # the attribute setters are exact; the constructor is an entry of its own
            return o
        return cls(*nums)
    if kind in ("Box2", "Box3"):
        vt = "V" + kind[3] + suf
        a, b = gen(vt, rng, ds, role), gen(vt, rng, ds, role)
        if ds == "nice" or rng.random() < 0.6:
            fa, fb = flat_nums(vt, a), flat_nums(vt, b)
            try:
                lo, hi = [min(x, y) for x, y in zip(fa, fb)], [max(x, y) for x, y in zip(fa, fb)]
                a, b = mk_vec(vt, lo), mk_vec(vt, hi)
            except Exception:
                pass
        bx = cls()
        bx.setMin(a)
        bx.setMax(b)
        return bx
    if kind == "Euler":
        if ORDERS is None:
            ORDERS = sorted(imath.Eulerf.Order.values.items())
        o = rng.choice(ORDERS)[1]
        return cls(*[gen_num(suf, rng, "nice" if rng.random() < 0.7 else ds, role) for _ in range(3)], o)
    if kind == "Frustum":
        if ds == "nice" or rng.random() < 0.6:
            n_ = rng.uniform(0.05, 2.0)
            f_ = n_ + rng.uniform(0.5, 500.0)
            l_, r_ = -rng.uniform(0.1, 2.0), rng.uniform(0.1, 2.0)
            b_, t_ = -rng.uniform(0.1, 2.0), rng.uniform(0.1, 2.0)
            vals = [n_, f_, l_, r_, t_, b_]
        else:
            vals = [gen_num(suf, rng, ds, role) for _ in range(6)]
        if suf == "f":
            vals = [f32(v) for v in vals]
        return cls(*vals, bool(rng.getrandbits(1)))
    if kind == "Line3":
        vt = "V3" + suf
        return cls(gen(vt, rng, ds, role), gen(vt, rng, ds, role))
    if kind == "Plane3":
        return cls(gen("V3" + suf, rng, ds, role), gen_num(suf, rng, ds, role))
    raise ValueError(t)


def mk_vec(vt, nums):
    kind, suf = TYPE_RE.match(vt).groups()
    cls = cls_of(vt)
    if suf == "i64":
        o = cls(*([0] * len(nums)))
        for name, v in zip("xyzw", nums):
            setattr(o, name, v)
        return o
    return cls(*nums)


def _attr(o, n):
    v = getattr(o, n)
    return v() if callable(v) else v


def flat_nums(t, o):
    """python object -> component values, as stored"""
    if t == "Order":
        return [("order", int(o))]
    if t in PRIM:
        return [o]
    kind, suf = TYPE_RE.match(t).groups()
    if kind in ("V2", "V3", "V4"):
        return [getattr(o, c) for c in "xyzw"[:NCOMP[kind]]]
    if kind in ("Color3", "Color4"):
        return [getattr(o, c) for c in "rgba"[:NCOMP[kind]]]
    if kind in ("M22", "M33", "M44"):
        return [c for row in o for c in row]
    if kind == "Quat":
        v = o.v()
        return [o.r(), v.x, v.y, v.z]
    if kind == "Shear6":
        return [o[i] for i in range(6)]      # (Shear6.__getitem__ has no bounds check: list(o) runs off the end)
    if kind in ("Box2", "Box3"):
        vt = "V" + kind[3] + suf
        return flat_nums(vt, _attr(o, "min")) + flat_nums(vt, _attr(o, "max"))
    if kind == "Euler":
        return [o.x, o.y, o.z, ("order", int(o.order()))]
    if kind == "Frustum":
        return [o.nearPlane(), o.farPlane(), o.left(), o.right(), o.top(), o.bottom(), ("bool", bool(o.orthographic()))]
    if kind == "Line3":
        return flat_nums("V3" + suf, o.pos()) + flat_nums("V3" + suf, o.dir())
    if kind == "Plane3":
        return flat_nums("V3" + suf, o.normal()) + [o.distance()]
    raise ValueError(t)


def base_of(t):
    if t == "Order":
        return "i"
    if t in PRIM:
        return PRIM[t]
    return TYPE_RE.match(t).group(2)


def safe_repr(o):
    try:
        return repr(o)
    except Exception as ex:          # V3c / V4c print their components as raw characters
        return "<%s: repr raises %s>" % (type(o).__name__, type(ex).__name__)


class NotRepresentable(Exception):
    pass


def tok(base, v):
    if isinstance(v, tuple):
        return str(int(v[1]))
    if base == "f":
        v = float(v)
        if v == v and not math.isinf(v) and f32(v) != v:
            raise NotRepresentable("a value of a float-typed result is not representable in single precision: %r" % v)
        return "%08x" % struct.unpack("<I", struct.pack("<f", v))[0]
    if base == "d":
        return "%016x" % struct.unpack("<Q", struct.pack("<d", float(v)))[0]
    if base == "b":
        return "1" if v else "0"
    if isinstance(v, float):
        raise NotRepresentable("an integer-typed result is a python float: %r" % v)
    return str(int(v))


def tokens(t, o):
    b = base_of(t)
    return [tok(b, v) for v in flat_nums(t, o)]


def canon(tokens_):
    out = []
    for t in tokens_:
        if len(t) == 8 and re.fullmatch(r"[0-9a-f]{8}", t):
            u = int(t, 16)
            if (u & 0x7f800000) == 0x7f800000 and (u & 0x007fffff):
                t = "nan"
        elif len(t) == 16 and re.fullmatch(r"[0-9a-f]{16}", t):
            u = int(t, 16)
            if (u & 0x7ff0000000000000) == 0x7ff0000000000000 and (u & 0x000fffffffffffff):
                t = "nan"
        out.append(t)
    return out


def role_for(cls, method, pos, t, types):
    m = method.lower()
    b = base_of(t)
    if b in ("f", "d") and m.startswith("__r") and "div" in m and pos == 0:
        return "nonzero"       # t / v: the bindings raise "Division by zero" for a zero component (by design)
    if b not in ("f", "d") and m.startswith("__r") and "div" in m:
        return "divisor" if pos == 0 else "moderate"      # t / v: the vector is the divisor
    if b not in ("f", "d") and ("div" in m or m in ("divs", "mods", "divp", "modp")) and pos > 0:
        return "divisor"
    if cls == "imath" and m in ("divs", "mods", "divp", "modp"):
        return "divisor" if pos > 0 else "moderate"
    if m in ("minorof", "fastminor") and t == "i":
        return "index"
    if m in ("floor", "ceil", "trunc", "ztodepth", "depthtoz"):
        return "moderate"
    if cls.startswith("Color") and b == "c" and ("div" in m):
        return "divisor"
    if b in ("f", "d") and "div" in m and pos > 0 and t in PRIM:
        return "nonzero"      # the bindings raise "Division by zero" for a zero scalar divisor (by design)
    return "any"


def main():
    ref, seed, ncase, outp = sys.argv[1], int(sys.argv[2]), int(sys.argv[3]), sys.argv[4]
    only = sys.argv[5] if len(sys.argv) > 5 else None
    reg = []
    for l in subprocess.run([ref, "list"], capture_output=True, text=True, check=True).stdout.strip().split("\n"):
        w = l.split()
        k = w.index("->")
        reg.append({"idx": int(w[0]), "cls": w[1], "method": w[2], "ins": w[3:k], "outs": w[k + 1:]})
    cases = []            # (entry, input tokens, python status, python tokens / message, repr args)
    unbound, notes = [], {}
    for e in reg:
        key = "%s.%s(%s)" % (e["cls"], e["method"], ",".join(e["ins"]))
        e["key"] = key
        if only and not re.search(only, key):
            continue
        cls, method = e["cls"], e["method"]
        module_fn = cls == "imath"
        ftest = cls.startswith("FrustumTest")
        owner = imath if module_fn else cls_of(cls)
        if owner is None or (method != "__init__" and not hasattr(owner, method)):
            unbound.append(key)
            continue
        rng = random.Random("%d:%s" % (seed, key))
        nb = 0
        for ci in range(ncase):
            ds = "nice" if ci % 2 == 0 else "edge"
            try:
                args = [gen(t, rng, ds, role_for(cls, method, p, t, e["ins"])) for p, t in enumerate(e["ins"])]
            except (OverflowError, ValueError, TypeError):
                try:
                    args = [gen(t, rng, "nice", role_for(cls, method, p, t, e["ins"])) for p, t in enumerate(e["ins"])]
                except Exception as ex:
                    notes[key] = "cannot construct arguments: %s" % str(ex)[:100]
                    break
            try:
                intoks = []
                for t, a in zip(e["ins"], args):
                    intoks += tokens(t, a)
            except Exception as ex:
                notes[key] = "cannot read back arguments: %s" % str(ex)[:100]
                break
            areprs = [safe_repr(a) for a in args]
            # ---- the python binding
            try:
                if method == "__init__":
                    r = owner(*args)
                elif module_fn and "f" in e["ins"]:
                    # python floats select the double overload: the FLOAT overload of a module function is reached through
                    # 1-element FloatArrays (this is what ties the vectorised float overloads to the C++ library bit for bit)
                    wrapped = []
                    for t, a in zip(e["ins"], args):
                        if t == "f":
                            fa = imath.FloatArray(1)
                            fa[0] = a
                            wrapped.append(fa)
                        else:
                            wrapped.append(a)
                    r = getattr(imath, method)(*wrapped)
                    if len(r) != 1:
                        raise NotRepresentable("1-element arrays give %d elements" % len(r))
                    r = r[0]
                elif module_fn:
                    r = getattr(imath, method)(*args)
                elif ftest:
                    selfobj = owner(args[0], args[1])
                    r = getattr(selfobj, method)(*args[2:])
                else:
                    selfobj = args[0]
                    f = getattr(selfobj, method)
                    r = f(*args[1:]) if callable(f) else f
                    if r is None:
                        r = selfobj
                status = "ok"
            except TypeError as ex:        # Boost.Python.ArgumentError: no such overload in the binding
                unbound.append(key + "  [" + str(ex).split("\n")[0][:80] + "]")
                nb = -1
                break
            except Exception as ex:
                status, r = "raise", "%s: %s" % (type(ex).__name__, str(ex)[:80])
            if r is NotImplemented:
                unbound.append(key + "  [NotImplemented]")
                nb = -1
                break
            pt = None
            if status == "ok":
                try:
                    outs = e["outs"]
                    rs = list(r) if (len(outs) > 1 and isinstance(r, (tuple, list))) else [r]
                    if len(rs) != len(outs):
                        raise NotRepresentable("binding returns %d values, table has %d" % (len(rs), len(outs)))
                    pt = []
                    for t, x in zip(outs, rs):
                        if t in PRIM:
                            pt.append(tok(PRIM[t], x))
                        else:
                            if type(x).__name__ != t:
                                raise NotRepresentable("binding returns %s, the C++ library %s" % (type(x).__name__, t))
                            pt += tokens(t, x)
                except NotRepresentable as ex:
                    status, r = "bad-type", str(ex)
                except Exception as ex:
                    status, r = "bad-type", "cannot flatten %s: %s" % (type(r).__name__, str(ex)[:80])
            cases.append((e, intoks, status, pt if status == "ok" else r, areprs, ds))
            nb += 1
    # ---- the C++ library
    inp = "\n".join("%d %s" % (c[0]["idx"], " ".join(c[1])) for c in cases) + "\n"
    p = subprocess.run([ref, "run"], input=inp, capture_output=True, text=True)
    lines = p.stdout.strip().split("\n") if p.stdout.strip() else []
    res = {"entries_in_table": len(reg), "unbound": unbound, "notes": notes, "cases": len(cases), "mismatch": [], "per_entry": {},
           "ref_rc": p.returncode, "ref_lines": len(lines), "raise_both": 0, "nan_canonicalised": 0}
    for c, l in zip(cases, lines):
        e, intoks, status, pt, areprs, ds = c
        w = l.split()
        cst, ctoks = w[0], w[1:]
        pe = res["per_entry"].setdefault(e["key"], {"cases": 0, "compared": 0, "raise_both": 0, "edge": 0})
        pe["cases"] += 1
        pe["edge"] += ds == "edge"
        bad = None
        if status == "bad-type":
            bad = "python result has the wrong type: %s" % pt
        elif status == "raise" and cst == "raise":
            pe["raise_both"] += 1
            res["raise_both"] += 1
        elif status == "raise":
            bad = "the python binding raises (%s), the C++ library returns" % pt
        elif cst == "raise":
            bad = "the C++ library throws (%s), the python binding returns" % " ".join(ctoks)
        else:
            pe["compared"] += 1
            a, b = canon(pt), canon(ctoks)
            if a != pt:
                res["nan_canonicalised"] += 1
            if a != b:
                bad = "results differ bitwise"
        if bad:
            res["mismatch"].append({"key": e["key"], "what": bad, "dataset": ds, "args": areprs, "arg_tokens": intoks,
                                    "python": pt, "cxx": ctoks if cst == "ok" else l,
                                    "replay": "echo '%d %s' | c20_scalar_ref run" % (e["idx"], " ".join(intoks))})
    json.dump(res, open(outp, "w"))


if __name__ == "__main__":
    main()
