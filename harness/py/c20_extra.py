#!/usr/bin/env python3
"""C20 harness, part 2: the exported array operations whose array type is NOT the 1-D FixedArray<T>
(so c20_harness.py does not see them), plus three special cases.

  FixedArray2D<T> arithmetic / comparison / ifelse  (IntArray2D, FloatArray2D, DoubleArray2D, Color4fArray2D, Color4cArray2D)
  FixedMatrix<T> arithmetic / pow                    (IntMatrix, FloatMatrix, DoubleMatrix)
  StringArray / WstringArray  == and !=             (array-valued: return IntArray)
  V{Int,Float,V2i,V2f}Array(IntArray sizes, init)    (variable-length array constructor taking a FixedArray)
  imath.hollowSphereRand / solidSphereRand           (Rand32 samplers returning V3fArray)

  c20_extra.py list                     -> JSON {entries: [{key, sig, skip}]}   (same docstring introspection)
  c20_extra.py run <opts.json> <out>    -> JSON lines, same record types as c20_harness.py (ep / viol / stats)

All of these are serial loops (no dispatchTask): they are run with and without a scripted pool installed and must
give bit-identical results (and intercept no dispatch); the point of this part is the ELEMENT-WISE comparison with
the scalar semantics (C operators on the element type, the Color4 scalar binding, python str comparison, the scalar
Rand32 call sequence) -- bit-exact -- and that mismatched dimensions raise.
"""
import sys, os, re, json, struct, random, math, traceback, faulthandler

faulthandler.enable()
import imath
import c20_harness as H

A2D_RE = re.compile(r"^PyImath::FixedArray2D<\s*(.+?)\s*>$")
MAT_RE = re.compile(r"^PyImath::FixedMatrix<\s*(.+?)\s*>$")
STR_RE = re.compile(r"^PyImath::StringArrayT<")
VAR_RE = re.compile(r"^PyImath::FixedVArray<")
PROTOCOL = H.PROTOCOL_NAMES | {"item", "size", "rows", "columns", "__init__"}
A2D_CLASSES = {"int": "IntArray2D", "float": "FloatArray2D", "double": "DoubleArray2D"}
MAT_CLASSES = {"int": "IntMatrix", "float": "FloatMatrix", "double": "DoubleMatrix"}


CONT2PY = {}      # C++ container type -> python class name (learned from the docstrings)


def container_of(t):
    """-> ('a2d'|'mat', element TI) or None"""
    m = A2D_RE.match(t)
    if m:
        return "a2d", H.TI.get(m.group(1).strip()), t
    m = MAT_RE.match(t)
    if m:
        return "mat", H.TI.get(m.group(1).strip()), t
    return None


def enumerate_extra():
    raw = []
    for cn in sorted(dir(imath)):
        c = getattr(imath, cn)
        if isinstance(c, type):
            for mn in sorted(dir(c)):
                if mn == "__class__" or mn not in c.__dict__:
                    continue
                d = getattr(getattr(c, mn), "__doc__", None)
                if isinstance(d, str) and "C++ signature" in d:
                    for k, ov in enumerate(H.parse_doc(d)):
                        raw.append((cn, mn, dict(ov, k=k)))
        elif callable(c):
            d = getattr(c, "__doc__", None)
            if isinstance(d, str) and "C++ signature" in d:
                for k, ov in enumerate(H.parse_doc(d)):
                    raw.append((None, cn, dict(ov, k=k)))
    H.learn_types(raw)
    for owner, name, ov in raw:
        if len(ov["pyargs"]) == len(ov["cargs"]):
            for (pt, _), (ct, _) in zip(ov["pyargs"], ov["cargs"]):
                if (A2D_RE.match(ct) or MAT_RE.match(ct)) and hasattr(imath, pt):
                    CONT2PY.setdefault(ct, pt)
        if ov["pyret"] and (A2D_RE.match(ov["cret"]) or MAT_RE.match(ov["cret"])) and hasattr(imath, ov["pyret"]):
            CONT2PY.setdefault(ov["cret"], ov["pyret"])
    out = []
    for owner, name, ov in raw:
        types = [ov["cret"]] + [t for t, _ in ov["cargs"]]
        fam = None
        if any(A2D_RE.match(t) for t in types):
            fam = "a2d"
        elif any(MAT_RE.match(t) for t in types):
            fam = "mat"
        elif any(STR_RE.match(t) for t in types):
            fam = "str"
        elif any(VAR_RE.match(t) for t in types) or (owner and owner.startswith("V") and owner.endswith("Array") and
                                                       hasattr(imath, owner) and "size" in getattr(imath, owner).__dict__ and
                                                       name == "__init__"):
            fam = "var"
        elif owner is None and name in ("hollowSphereRand", "solidSphereRand"):
            fam = "sampler"
        if fam is None:
            continue
        e = {"owner": owner, "name": name, "k": ov["k"], "sig": ov["sig"], "cret": ov["cret"], "cargs": ov["cargs"],
             "key": "%s.%s#%d" % (owner or "imath", name, ov["k"]), "fam": fam, "skip": None}
        has1d = any(H.ARRAY_RE.match(t) for t in types)
        if fam in ("a2d", "mat"):
            if name in PROTOCOL:
                e["skip"] = "indexing/construction protocol (property C19)"
            else:
                for t in types:
                    if (A2D_RE.match(t) or MAT_RE.match(t)) and t not in CONT2PY:
                        e["skip"] = "no python class known for " + t
        elif fam == "str":
            if name not in ("__eq__", "__ne__"):
                e["skip"] = "indexing/construction protocol (property C19)"
        elif fam == "var":
            if not (name == "__init__" and has1d):
                e["skip"] = "variable-length array protocol (property C19)"
        out.append(e)
    return out


# --------------------------------------------------------------------------- containers


CARRIERS_USED = set()


class C2D:
    """values[j][i] for a FixedArray2D of size (w, h)  /  values[r][c] for a FixedMatrix (rows, cols)"""

    def __init__(self, fam, ti, dims, vals, cxx=None):
        self.fam, self.ti, self.dims, self.vals, self.cxx = fam, ti, dims, vals, cxx
        self.carrier = None

    def cls(self):
        n = CONT2PY.get(self.cxx)
        if n is None:
            n = (A2D_CLASSES if self.fam == "a2d" else MAT_CLASSES).get(self.ti.cxx)
        return getattr(imath, n)

    def build(self):
        a, b = self.dims
        if self.carrier is not None and self.fam == "a2d" and self.ti.cxx == "float" and hasattr(imath, "Color4fArray2D"):
            # a STRIDED FloatArray2D: the channel property of a Color4fArray2D (component add_property of the 2-D colour arrays)
            c4 = imath.Color4fArray2D(a, b)
            k = self.carrier % 4
            for j in range(b):
                for i in range(a):
                    v = self.vals[j][i]
                    parts = [self.vals[(j + 1 + q) % b][(i + q) % a] for q in range(4)]
                    parts[k] = v
                    c4[(i, j)] = imath.Color4f(*parts)
            CARRIERS_USED.add("Color4fArray2D." + "rgba"[k])
            return getattr(c4, "rgba"[k])
        o = self.cls()(a, b)
        if self.fam == "a2d":
            for j in range(b):
                for i in range(a):
                    o[(i, j)] = H.copy_elem(self.ti, self.vals[j][i])
        else:
            for r in range(a):
                row = o[r]
                for c in range(b):
                    row[c] = self.vals[r][c]
        return o


def read2d(fam, o):
    if fam == "a2d":
        w, h = o.size()
        return (w, h), [[o.item(i, j) for i in range(w)] for j in range(h)]
    r, c = o.rows(), o.columns()
    return (r, c), [list(o[i]) for i in range(r)]


def snap2d(fam, ti, o):
    dims, vals = read2d(fam, o)
    nums = []
    for row in vals:
        for v in row:
            nums.extend(H.flat(ti, v))
    return repr(dims).encode() + H.pack(ti, nums)


def gen2d(fam, ti, dims, rng, ds, role, cxx=None):
    a, b = dims
    if fam == "a2d":
        return C2D(fam, ti, dims, [[H.gen_value(ti, rng, ds, role) for _ in range(a)] for _ in range(b)], cxx)
    return C2D(fam, ti, dims, [[H.gen_value(ti, rng, ds, role) for _ in range(b)] for _ in range(a)], cxx)


class Ext:
    def __init__(self, opts, out):
        self.o, self.out = opts, out
        self.keys = set()

    def violate(self, kind, e, what, replay):
        key = "%s:%s(%s)" % (kind, e["key"], e["sig"].split("(", 1)[1].rstrip(")")[:120])
        if key in self.keys:
            return
        self.keys.add(key)
        self.out.put({"t": "viol", "kind": kind, "key": key, "what": what,
                      "replay": dict(replay, entry=e["key"], cxx_signature=e["sig"], seed=self.o["seed"])})

    def with_pools(self, fn, n):
        """run fn() without a pool and with scripted pools installed -> list of results; counts dispatches"""
        H.SHIM.clear()
        res = [fn()]
        disp = 0
        for rs, thr in (([(0, n)], False), ([(0, n // 2), (n // 2, n)], False), ([(n // 2, n), (0, n // 2)], True)):
            H.SHIM.script(rs, thr)
            res.append(fn())
            disp += H.SHIM.take()["dispatches"]
        H.SHIM.clear()
        return res, disp

    # ................................................................... 2-D arrays and matrices
    def run_2d(self, e, summ):
        rng = random.Random("%d:%s" % (self.o["seed"], e["key"]))
        fam = e["fam"]
        args = []
        for t, lv in e["cargs"]:
            c = container_of(t)
            if c:
                args.append(("cont", c[1], lv, t))
            else:
                el = H.arr_elem(t)
                ti = H.TI.get(el if el is not None else t)
                if not ti.ok or el is not None:
                    summ["scalar_ref"] = "none: argument type %s" % t
                    summ["unreached"] = "argument type " + t
                    return
                args.append(("scalar", ti, lv, t))
        name = e["name"]
        if e["owner"] is None:
            return self.run_range(e, summ)
        role = "divisor" if (("div" in name or "mod" in name) and not args[0][1].isfloat) else "any"
        sizes = [(1, 1), (3, 2), (17, 13)] + ([(25, 9), (2, 150)] if self.o["full"] else [(25, 9)])
        for dims in sizes:
            for ds in ("nice", "edge"):
                specs = []
                for pos, (kind, ti, lv, ct) in enumerate(args):
                    r_ = role if pos > 0 else "any"
                    if name.startswith("__r") and pos == 0:
                        r_ = role
                    if name == "ifelse" and pos == 1:
                        cti = ti
                        specs.append(gen2d(fam, cti, dims, rng, "nice", "any", ct))
                        for row in specs[-1].vals:
                            for k in range(len(row)):
                                row[k] = rng.randrange(0, 2)
                        continue
                    specs.append(gen2d(fam, ti, dims, rng, ds, r_, ct) if kind == "cont" else ("scalar", ti, H.gen_value(ti, rng, ds, r_)))
                    if kind == "cont" and not lv and ds == "nice" and dims in ((3, 2), (25, 9)) and ti.cxx == "float" and fam == "a2d":
                        specs[-1].carrier = rng.randrange(4)

                def call():
                    objs = [s.build() if isinstance(s, C2D) else H.copy_elem(s[1], s[2]) for s in specs]
                    try:
                        r = getattr(objs[0], name)(*objs[1:])
                    except Exception as ex:
                        return ("raise", type(ex).__name__, str(ex)[:100]), None, None
                    snaps = [snap2d(fam, s.ti, o) if isinstance(s, C2D) else None for s, o in zip(specs, objs)]
                    rs = snap2d(fam, self.result_ti(e, specs), r) if (r is not None and r is not NotImplemented and not isinstance(r, (int, float, bool))) else repr(r).encode()
                    return ("ok", rs, snaps), r, objs
                for s_ in specs:
                    if isinstance(s_, C2D) and s_.carrier is not None:
                        _d, got_ = read2d(fam, s_.build())
                        if [[H.pack(s_.ti, [x]) for x in row] for row in got_] != [[H.pack(s_.ti, [x]) for x in row] for row in s_.vals]:
                            self.violate("component-property", e, "the channel array Color4fArray2D.%s does not hold the values stored in that "
                                         "channel" % "rgba"[s_.carrier % 4], {"dims": dims})
                n = dims[0] * dims[1]
                res, disp = self.with_pools(call, n)
                summ["runs"] += len(res)
                summ["partitions"] += len(res) - 1
                summ["dispatches"] += disp
                if any(x[0] != res[0][0] for x in res[1:]):
                    self.violate("partition", e, "result differs with a pool installed (serial loop)", {"dims": dims, "dataset": ds})
                st, r, objs = res[0]
                if st[0] == "raise":
                    summ["raises"] += 1
                    if ds == "nice":
                        self.violate("array-raises", e, "the call raises on moderate arguments: %s" % (st,), {"dims": dims})
                    continue
                if r is NotImplemented:
                    summ["scalar_ref"] = "none: NotImplemented"
                    return
                self.scalar_2d(e, fam, specs, r, objs, dims, ds, summ)
        # mismatched dimensions must raise, nothing written
        conts = [i for i, a in enumerate(args) if a[0] == "cont"]
        if len(conts) >= 2:
            mm = {"cases": 0, "calls": 0, "raised": 0}
            for victim in conts:
                for dd in ((1, 0), (0, 1), (-1, 0), (0, -1)):
                    base = (4, 3)
                    specs = []
                    for pos, (kind, ti, lv, ct) in enumerate(args):
                        d = (base[0] + dd[0], base[1] + dd[1]) if pos == victim else base
                        specs.append(gen2d(fam, ti, d, rng, "nice", role if pos > 0 else "any", ct) if kind == "cont" else ("scalar", ti, H.gen_value(ti, rng, "nice", role)))
                    objs = [s.build() if isinstance(s, C2D) else H.copy_elem(s[1], s[2]) for s in specs]
                    pre = [snap2d(fam, s.ti, o) if isinstance(s, C2D) else None for s, o in zip(specs, objs)]
                    mm["cases"] += 1
                    mm["calls"] += 1
                    # first in a forked child: a crash must not take the harness down
                    sig = H.forked(lambda: getattr(objs[0], name)(*objs[1:]))
                    if sig is not None:
                        mm["crashed"] = mm.get("crashed", 0) + 1
                        self.violate("mismatch-crash", e, "container arguments of mismatched dimensions crash the interpreter (signal %d)" % sig,
                                     {"dims": [s.dims if isinstance(s, C2D) else None for s in specs], "signal": sig})
                        continue
                    try:
                        getattr(objs[0], name)(*objs[1:])
                        raised = False
                    except Exception:
                        raised = True
                    post = [snap2d(fam, s.ti, o) if isinstance(s, C2D) else None for s, o in zip(specs, objs)]
                    if not raised:
                        self.violate("mismatch", e, "container argument %d differs in dimension %s and the call does not raise" % (victim + 1, dd),
                                     {"dims": [s.dims if isinstance(s, C2D) else None for s in specs]})
                    else:
                        mm["raised"] += 1
                        if pre != post:
                            self.violate("mismatch-write", e, "mismatched dimensions raise, but an argument was modified before the check", {"delta": dd})
            summ["mismatch_len"] = mm

    def run_range(self, e, summ):
        """imath.rangeX(w,h) / rangeY(w,h): a w x h IntArray2D holding the x (y) coordinate of every cell"""
        for (w, h) in ((1, 1), (3, 2), (17, 13), (25, 9)):
            def call():
                a = getattr(imath, e["name"])(w, h)
                return a.size(), [[a.item(i, j) for i in range(w)] for j in range(h)]
            res, disp = self.with_pools(call, w * h)
            summ["runs"] += len(res)
            summ["partitions"] += len(res) - 1
            summ["dispatches"] += disp
            if any(x != res[0] for x in res[1:]):
                self.violate("partition", e, "result differs with a pool installed", {"dims": [w, h]})
            want = [[(i if e["name"] == "rangeX" else j) for i in range(w)] for j in range(h)]
            summ["scalar_ref"] = "cell (i,j) holds i (rangeX) / j (rangeY)"
            summ["scalar_checked"] += w * h
            if res[0] == ((w, h), want):
                summ["scalar_exact"] += w * h
            else:
                self.violate("scalar", e, "range array differs from the coordinate of each cell", {"dims": [w, h], "got": res[0][1][:2]})

    def result_ti(self, e, specs):
        c = container_of(e["cret"])
        if c:
            return c[1]
        return specs[0].ti

    def scalar_2d(self, e, fam, specs, r, objs, dims, ds, summ):
        name = e["name"]
        rti = self.result_ti(e, specs)
        inplace = name.startswith("__i") and name not in ("__invert__",)
        target = objs[0] if (inplace or r is None) else r
        tdims, tvals = read2d(fam, target)
        first = specs[0]
        if tdims != first.dims:
            self.violate("scalar", e, "result has dimensions %s, arguments %s" % (tdims, first.dims), {})
            return
        how = "builtin" if first.ti.shape == "prim" else "element-method"
        summ["scalar_ref"] = how
        rows = len(first.vals)
        for a in range(rows):
            for b in range(len(first.vals[a])):
                sargs = [(s.vals[a][b] if isinstance(s, C2D) else s[2]) for s in specs]
                got = tvals[a][b]
                try:
                    if name == "ifelse":
                        want = sargs[0] if sargs[1] else sargs[2]
                    elif how == "builtin":
                        rr = H.builtin_ref(name, first.ti, sargs[0], sargs[1:])
                        if rr is None:
                            summ["scalar_ref"] = "none: no C-semantics reference for %s on %s" % (name, first.ti.base)
                            return
                        want = H.round_to(rti, rr[0])
                    else:
                        cands = [name]
                        mm = re.match(r"^__(r|i)(\w+)__$", name)
                        if mm:
                            cands.append("__%s__" % mm.group(2))
                        want = NotImplemented
                        for cand in cands:
                            x = [H.copy_elem(first.ti, sargs[0])] + sargs[1:]
                            if cand != name and name.startswith("__r") and len(x) > 1 and type(x[1]) is type(x[0]):
                                x = [H.copy_elem(first.ti, sargs[1]), sargs[0]]
                            f = getattr(x[0], cand, None)
                            if f is None:
                                continue
                            try:
                                want = f(*x[1:])
                            except TypeError:
                                want = NotImplemented
                                continue
                            if want is None:
                                want = x[0]
                            if want is not NotImplemented:
                                break
                        if want is NotImplemented:
                            summ["scalar_ref"] = "none: scalar binding has no such overload"
                            return
                except Exception as ex:
                    summ["scalar_raised_elements"] = summ.get("scalar_raised_elements", 0) + 1
                    continue
                summ["scalar_checked"] += 1
                try:
                    wn = [want] if rti.shape == "prim" else H.flat(rti, want)
                    gn = [got] if rti.shape == "prim" else H.flat(rti, got)
                    same = H.canon_pack(rti, wn) == H.canon_pack(rti, gn)
                except Exception as ex:
                    same = False
                if same:
                    summ["scalar_exact"] += 1
                else:
                    self.violate("scalar", e, "element differs from the scalar semantics (bit-exact required)",
                                 {"dims": dims, "dataset": ds, "position": [a, b], "scalar_args": [repr(x) for x in sargs],
                                  "scalar_result": repr(want), "array_element": repr(got)})
                    return

    # ................................................................... strings
    def run_str(self, e, summ):
        rng = random.Random("%d:%s" % (self.o["seed"], e["key"]))
        cls = getattr(imath, e["owner"])
        wide = e["owner"].startswith("W")
        alphabet = ["", "a", "b", "ab", "a ", "A", "é" if wide else "z", "abc" * 30]
        arr_rhs = any(STR_RE.match(t) for t, _ in e["cargs"][1:])
        for L in (0, 1, 7, 201, 257):
            lhs = [rng.choice(alphabet) for _ in range(L)]
            rhs = [rng.choice(alphabet) for _ in range(L)] if arr_rhs else rng.choice(alphabet)

            def call():
                a = cls(L)
                for i, s_ in enumerate(lhs):
                    a[i] = s_
                if arr_rhs:
                    b = cls(L)
                    for i, s_ in enumerate(rhs):
                        b[i] = s_
                else:
                    b = rhs
                r = getattr(a, e["name"])(b)
                return list(r), type(r).__name__
            res, disp = self.with_pools(call, max(L, 2))
            summ["runs"] += len(res)
            summ["partitions"] += len(res) - 1
            summ["dispatches"] += disp
            if any(x != res[0] for x in res[1:]):
                self.violate("partition", e, "result differs with a pool installed", {"L": L})
            got, tn = res[0]
            want = [int((x == (rhs[i] if arr_rhs else rhs)) == (e["name"] == "__eq__")) for i, x in enumerate(lhs)]
            summ["scalar_ref"] = "python str comparison"
            summ["scalar_checked"] += L
            if got == want and tn == "IntArray":
                summ["scalar_exact"] += L
            else:
                self.violate("scalar", e, "string array comparison differs from the element-wise python str comparison",
                             {"L": L, "lhs": lhs[:8], "rhs": rhs[:8] if arr_rhs else rhs, "got": got[:8], "want": want[:8], "type": tn})
        if arr_rhs:
            a, b = cls(5), cls(6)
            try:
                getattr(a, e["name"])(b)
                self.violate("mismatch", e, "string arrays of lengths 5 and 6 compare without raising", {})
            except Exception:
                summ["mismatch_len"] = {"cases": 1, "calls": 1, "raised": 1}

    # ................................................................... variable-length array from a sizes array
    def run_var(self, e, summ):
        rng = random.Random("%d:%s" % (self.o["seed"], e["key"]))
        cls = getattr(imath, e["owner"])
        eti = None
        for t, _ in e["cargs"]:
            if t.startswith("_object") or H.ARRAY_RE.match(t):
                continue
            eti = H.TI.get(t)
        for L in (0, 1, 7, 201, 257):
            for mode in ("direct", "masked", "strided"):
                sizes = [rng.choice((0, 1, 2, 5)) for _ in range(L)]
                sp = H.make_spec(_FakeEP(), 0, "array", H.TI.get("int"), False, mode, L, rng, "nice")
                sp.values[:] = sizes
                if sp.under is not None:
                    for i, v in zip(sp.idx, sizes):
                        sp.under[i] = v
                init = H.gen_value(eti, rng, "nice") if eti is not None and eti.ok else 3

                def call():
                    a, _u = sp.build()
                    v = cls(a, H.copy_elem(eti, init) if eti is not None and eti.ok else init)
                    return [[(H.flat(eti, x) if eti is not None and eti.ok and eti.shape != "prim" else x) for x in v[i]] for i in range(len(v))]
                res, disp = self.with_pools(call, max(L, 2))
                summ["runs"] += len(res)
                summ["partitions"] += len(res) - 1
                summ["dispatches"] += disp
                summ["kinds"][mode] = summ["kinds"].get(mode, 0) + 1
                if any(x != res[0] for x in res[1:]):
                    self.violate("partition", e, "result differs with a pool installed", {"L": L, "mode": mode})
                want = [[(H.flat(eti, init) if eti is not None and eti.ok and eti.shape != "prim" else init)] * n for n in sizes]
                summ["scalar_ref"] = "row i has sizes[i] copies of the initial value"
                summ["scalar_checked"] += L
                if res[0] == want:
                    summ["scalar_exact"] += L
                else:
                    bad = [i for i, (x, y) in enumerate(zip(res[0], want)) if x != y][:1]
                    self.violate("scalar", e, "rows of the variable-length array differ from sizes[i] x initial value",
                                 {"L": L, "mode": mode, "first_bad_row": bad, "sizes": sizes[:10], "got": res[0][:3]})

    # ................................................................... samplers
    def run_sampler(self, e, summ):
        scalar = {"hollowSphereRand": "nextHollowSphere", "solidSphereRand": "nextSolidSphere"}[e["name"]]
        for n in (0, 1, 7, 201, 257, 1000):
            seed = (self.o["seed"] * 7919 + n) % (2 ** 31)

            def call():
                r = imath.Rand32(seed)
                a = getattr(imath, e["name"])(r, n)
                return [H.flat(H.TI.get(H.arr_elem(e["cret"])), x) for x in a], r.nextf()
            res, disp = self.with_pools(call, max(n, 2))
            summ["runs"] += len(res)
            summ["partitions"] += len(res) - 1
            summ["dispatches"] += disp
            if any(x != res[0] for x in res[1:]):
                self.violate("partition", e, "sampler result differs with a pool installed", {"n": n})
            r = imath.Rand32(seed)
            want = [H.flat(H.TI.get(H.arr_elem(e["cret"])), getattr(r, scalar)(imath.V3f())) for _ in range(n)]
            after = r.nextf()
            summ["scalar_ref"] = "the scalar Rand32.%s call sequence" % scalar
            summ["scalar_checked"] += n
            if res[0][0] == want and res[0][1] == after:
                summ["scalar_exact"] += n
            else:
                self.violate("scalar", e, "sampler array differs from the scalar %s call sequence (or leaves the generator in another state)" % scalar,
                             {"n": n, "seed": seed, "got": res[0][0][:2], "want": want[:2]})
        try:
            getattr(imath, e["name"])(imath.Rand32(1), -1)
            summ["negative_count"] = "accepted"
        except Exception as ex:
            summ["negative_count"] = "raises " + type(ex).__name__


class _FakeEP:
    name = "sizes"


def cmd_list():
    json.dump({"entries": [{k: v for k, v in e.items() if k != "cargs"} for e in enumerate_extra()]}, sys.stdout)


def cmd_run(optpath, outpath):
    o = json.load(open(optpath))
    H.SHIM = H.Shim(o["shim"])
    out = H.Out(outpath)
    ex = Ext(o, out)
    entries = [e for e in enumerate_extra() if not e["skip"]]
    if o.get("keys") is not None:
        ks = set(o["keys"])
        entries = [e for e in entries if e["key"] in ks]
    prog = open(o["progress"], "a") if o.get("progress") else None
    for e in entries:
        if prog:
            prog.write("BEGIN %s\n" % e["key"])
            prog.flush()
        summ = {"t": "ep", "key": e["key"], "sig": e["sig"], "runs": 0, "partitions": 0, "dispatches": 0, "raises": 0, "kinds": {},
                "scalar_checked": 0, "scalar_exact": 0, "scalar_ulp_max": 0, "scalar_ref": None, "mismatch_len": None, "serial": True,
                "lengths": [], "threaded_runs": 0, "family": e["fam"]}
        try:
            {"a2d": ex.run_2d, "mat": ex.run_2d, "str": ex.run_str, "var": ex.run_var, "sampler": ex.run_sampler}[e["fam"]](e, summ)
            if summ["dispatches"]:
                ex.violate("threshold", e, "a dispatch was intercepted for a serial (2-D / matrix / string) operation", {})
        except Exception:
            out.put({"t": "harness-error", "key": e["key"], "error": traceback.format_exc()[-1500:]})
        out.put(summ)
        if prog:
            prog.write("END %s\n" % e["key"])
            prog.flush()
    H.SHIM.clear()
    out.put({"t": "stats", "done": len(entries), "strided_sources": sorted(CARRIERS_USED), "nan_bits_only_differences": 0, "dispatches": 0, "ranges": 0, "fallbacks": H.SHIM.total_fallbacks,
             "thread_exceptions": H.SHIM.total_thread_exc, "wall": 0})


if __name__ == "__main__":
    if sys.argv[1] == "list":
        cmd_list()
    else:
        cmd_run(sys.argv[2], sys.argv[3])
