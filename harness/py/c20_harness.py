#!/usr/bin/env python3
"""C20 harness: runs INSIDE the python the real `imath` module was built for
(tools/pyimath.PYTHON, environment tools/pyimath.env()).  No numpy.

  c20_harness.py list                              -> JSON: every exported overload, classified
  c20_harness.py run  <opts.json> <out.jsonl>      -> exercise the selected entry points
  c20_harness.py model <opts.json> <out.jsonl>     -> real module vs Lean model (drv_dispatch)
  c20_harness.py probe <what>                      -> one guarded hazard probe (own process)

The scripted WorkerPool lives in libpoolshim.so (harness/py/poolshim.cpp), loaded
with ctypes; it is installed through PyImath::WorkerPool::setCurrentPool.

Every result is compared BITWISE (struct.pack of the element values) between
the unsplit run without a pool and every scripted partition, and element by
element against the scalar binding.
"""
import sys, os, re, json, struct, random, math, ctypes, time, traceback, faulthandler, subprocess

faulthandler.enable()
import imath

# --------------------------------------------------------------------------- shim


class Shim:
    def __init__(self, path):
        self.lib = ctypes.CDLL(path)
        self.lib.shim_set_script.argtypes = [ctypes.c_int, ctypes.POINTER(ctypes.c_size_t),
                                             ctypes.POINTER(ctypes.c_size_t), ctypes.c_int]
        self.lib.shim_set_script_tids.argtypes = [ctypes.c_int, ctypes.POINTER(ctypes.c_size_t),
                                                  ctypes.POINTER(ctypes.c_size_t), ctypes.POINTER(ctypes.c_int), ctypes.c_int]
        self.lib.shim_stats.argtypes = [ctypes.POINTER(ctypes.c_long)]
        self.total_dispatches = 0
        self.total_ranges = 0
        self.total_fallbacks = 0
        self.total_thread_exc = 0

    def script(self, ranges, threaded=False):
        n = len(ranges)
        A = (ctypes.c_size_t * max(1, n))(*[r[0] for r in ranges])
        B = (ctypes.c_size_t * max(1, n))(*[r[1] for r in ranges])
        # a range is (start, end) -> worker id = position in the script, or (start, end, tid): ids may repeat
        T = (ctypes.c_int * max(1, n))(*[(r[2] if len(r) > 2 else k) for k, r in enumerate(ranges)])
        self.lib.shim_set_script_tids(n, A, B, T, 1 if threaded else 0)
        self.lib.shim_reset_stats()

    def in_worker(self, flag):
        self.lib.shim_set_in_worker(1 if flag else 0)

    def clear(self):
        self.lib.shim_clear()
        self.lib.shim_reset_stats()

    def stats(self):
        out = (ctypes.c_long * 7)()
        self.lib.shim_stats(out)
        return {"dispatches": out[0], "ranges": out[1], "fallbacks": out[2], "thread_exc": out[3],
                "last_length": out[4], "min_length": out[5], "workers": out[6]}

    def take(self):
        s = self.stats()
        self.total_dispatches += s["dispatches"]
        self.total_ranges += s["ranges"]
        self.total_fallbacks += s["fallbacks"]
        self.total_thread_exc += s["thread_exc"]
        return s


SHIM = None

# --------------------------------------------------------------------------- signatures

SIG_RE = re.compile(r"C\+\+ signature :\s*\n\s*(.+)")
PYSIG_RE = re.compile(r"^(\w+)\(\s*(.*?)\)\s*->\s*(\w+)\s*:\s*$", re.M)
NS = r"Imath_\d+_\d+::"


def split_top(s):
    out, depth, cur = [], 0, ""
    for ch in s:
        if ch == "<":
            depth += 1
        elif ch == ">":
            depth -= 1
        if ch == "," and depth == 0:
            out.append(cur.strip())
            cur = ""
        else:
            cur += ch
    if cur.strip():
        out.append(cur.strip())
    return out


def clean_cxx(t):
    t = t.replace("[", "").replace("]", "").strip()
    lv = "{lvalue}" in t
    t = t.replace("{lvalue}", "").strip()
    return t, lv


def parse_doc(doc):
    """[(pyargs [(pytype,name)], pyret, cxxret, cxxname, [(cxxtype, lvalue)])] for every overload."""
    res = []
    if not doc or "C++ signature" not in doc:
        return res
    chunks = re.split(r"\n(?=\w+\(\s*[\(\)])", "\n" + doc)
    for ch in chunks:
        m = SIG_RE.search(ch)
        if not m:
            continue
        sig = m.group(1).strip()
        mm = re.match(r"(.+?)\s+(\w+)\((.*)\)$", sig)
        if not mm:
            continue
        cret, cname, cargs = mm.groups()
        cargs = [clean_cxx(a) for a in split_top(cargs)]
        pm = PYSIG_RE.search(ch)
        pyargs, pyret = [], None
        if pm:
            pyret = pm.group(3)
            pyargs = re.findall(r"\((\w+)\)(\w+)", pm.group(2))
        res.append({"pyargs": pyargs, "pyret": pyret, "cret": clean_cxx(cret)[0], "cname": cname, "cargs": cargs,
                    "sig": sig})
    return res


PRIMS = {"float": "f32", "double": "f64", "int": "i32", "short": "i16", "signed char": "i8", "unsigned char": "u8",
         "unsigned int": "u32", "unsigned short": "u16", "long": "i64", "bool": "bool"}
BITS = {"i8": 8, "u8": 8, "i16": 16, "u16": 16, "i32": 32, "u32": 32, "i64": 64, "bool": 1}
COMPOSITE_RE = re.compile(r"^" + NS + r"(Vec2|Vec3|Vec4|Color3|Color4|Quat|Matrix22|Matrix33|Matrix44|Euler|Box)<\s*(.+?)\s*>$")
ARRAY_RE = re.compile(r"^PyImath::FixedArray<\s*(.+?)\s*>$")
OPTARRAY_RE = re.compile(r"^PyImath::FixedArray<\s*(.+?)\s*>\s*const\s*\*$")     # optional array argument (None allowed)
FTEST_RE = re.compile(r"^" + NS + r"FrustumTest<\s*(float|double)\s*>$")
ORDER_RE = re.compile(r"^" + NS + r"Euler<\s*(float|double)\s*>::Order$")

CXX2PY = {}       # C++ type -> python class name (learned from the docstrings)


class TI:
    """element type"""
    cache = {}

    def __init__(self, cxx):
        self.cxx = cxx
        self.ok = True
        self.prim = None
        self.shape = None
        if cxx in PRIMS:
            self.prim = PRIMS[cxx]
            self.base = self.prim
            self.shape = "prim"
            self.n = 1
            return
        mt = FTEST_RE.match(cxx)
        if mt:
            # FrustumTest(frustum, cameraMatrix): an opaque, immutable scalar `self` (no accessors): never flattened
            self.shape, self.base, self.n, self.fbase = "frustumtest", "i32", 0, PRIMS[mt.group(1)]
            return
        if ORDER_RE.match(cxx):
            self.shape, self.base, self.n = "order", "i32", 1
            return
        m = COMPOSITE_RE.match(cxx)
        if not m:
            self.ok = False
            return
        kind, inner = m.groups()
        if kind == "Box":
            it = TI.get(inner)
            if not it.ok or it.shape != "vec":
                self.ok = False
                return
            self.shape, self.inner, self.base, self.n = "box", it, it.base, 2 * it.n
            return
        if inner not in PRIMS:
            self.ok = False
            return
        self.base = PRIMS[inner]
        if kind.startswith("Vec"):
            self.shape, self.n = "vec", int(kind[3])
        elif kind.startswith("Color"):
            self.shape, self.n = "color", int(kind[5])
        elif kind == "Quat":
            self.shape, self.n = "quat", 4
        elif kind.startswith("Matrix"):
            self.shape, self.dim = "mat", int(kind[6])
            self.n = self.dim * self.dim
        elif kind == "Euler":
            self.shape, self.n = "euler", 3

    @staticmethod
    def get(cxx):
        if cxx not in TI.cache:
            TI.cache[cxx] = TI(cxx)
        return TI.cache[cxx]

    @property
    def isfloat(self):
        return self.base in ("f32", "f64")

    def pycls(self):
        if self.shape == "frustumtest":
            return getattr(imath, "FrustumTest" + ("f" if self.fbase == "f32" else "d"), None)
        if self.shape == "order":
            return getattr(imath.Eulerf, "Order", None)
        n = CXX2PY.get(self.cxx)
        return getattr(imath, n) if n and hasattr(imath, n) else None

    def arraycls(self):
        n = CXX2PY.get("PyImath::FixedArray<%s>" % self.cxx) or CXX2PY.get("PyImath::FixedArray<%s >" % self.cxx)
        return getattr(imath, n) if n and hasattr(imath, n) else None


def arr_elem(cxx):
    m = ARRAY_RE.match(cxx) or OPTARRAY_RE.match(cxx)
    return m.group(1).strip() if m else None


# --------------------------------------------------------------------------- values

F32_MAX = 3.4028234663852886e38


def f32(x):
    try:
        return struct.unpack("<f", struct.pack("<f", x))[0]
    except OverflowError:
        return math.copysign(float("inf"), x)

INT_RANGE = {"i8": (-128, 127), "u8": (0, 255), "i16": (-32768, 32767), "u16": (0, 65535),
             "i32": (-2 ** 31, 2 ** 31 - 1), "u32": (0, 2 ** 32 - 1), "i64": (-2 ** 63, 2 ** 63 - 1), "bool": (0, 1)}
EDGE_F32 = [0.0, -0.0, 1.0, -1.0, 0.5, 2.0, 1e-30, -1e-30, 1e30, -1e30, float("inf"), float("-inf"), float("nan"),
            F32_MAX, -F32_MAX, 1.1754943508222875e-38, 1.401298464324817e-45, 16777216.0, 0.1, 3.0]
EDGE_F64 = EDGE_F32 + [1e300, -1e300, 1e-300, 5e-324, 1.7976931348623157e308]


def gen_num(base, rng, ds, role):
    if base in ("f32", "f64"):
        if ds == "nice" or rng.random() < 0.35:
            v = rng.choice((-1.0, 1.0)) * rng.uniform(0.25, 8.0)
            if role == "unit":
                v = rng.uniform(-1.0, 1.0)
            return f32(v) if base == "f32" else v      # representable in the C++ parameter type
        v = rng.choice(EDGE_F32 if base == "f32" else EDGE_F64)
        return f32(v) if base == "f32" else v
    lo, hi = INT_RANGE[base]
    if base == "bool":
        return bool(rng.getrandbits(1))
    if role == "shift":
        return rng.randrange(0, min(BITS[base], 31))
    if ds == "nice" or rng.random() < 0.35:
        v = rng.randrange(1, 12)
        if lo < 0 and rng.random() < 0.5:
            v = -v
        if role == "divisor" and v == -1:
            v = 2
        return v
    while True:
        v = rng.choice((0, 1, hi, lo, -1 if lo < 0 else 2, hi - 1, lo + 1, rng.randrange(lo, hi + 1)))
        if role == "divisor" and v in (0, -1):
            continue
        return v


SAFE = False       # after a crash that the scalar binding reproduces: affine matrices, moderate values only


def gen_value(ti, rng, ds, role="any"):
    if SAFE:
        ds = "nice"
    try:
        return gen_value_(ti, rng, ds, role)
    except (OverflowError, ValueError, TypeError):
        # the element constructors refuse some values (boost::numeric_cast on inf / out-of-range): moderate values
        return gen_value_(ti, rng, "nice", role)


TINY = {"f32": 1.401298464324817e-45, "f64": 5e-324}
HUGE = {"f32": 3e38, "f64": 1e308}


def special_element(ti, rng, which):
    """whole-element failure inputs of the scalar operations (normalize / length / inverse / slerp ...): the zero
    element, denormal-only and overflowing elements, a unit axis, all components equal, (matrices) zero / singular"""
    b = ti.base
    n = ti.n
    if which == "zero":
        nums = [0.0] * n
    elif which == "negzero":
        nums = [-0.0] * n
    elif which == "tiny":
        nums = [rng.choice((1.0, -1.0)) * TINY[b] for _ in range(n)]
    elif which == "huge":
        nums = [rng.choice((1.0, -1.0)) * HUGE[b] for _ in range(n)]
    elif which == "axis":
        k = rng.randrange(n)
        nums = [(rng.choice((1.0, -1.0, 2.0)) if i == k else 0.0) for i in range(n)]
    elif which == "equal":
        v = gen_num(b, rng, "nice", "any")
        nums = [v] * n
    else:
        raise ValueError(which)
    return ti.pycls()(*nums)


SPECIALS = ("zero", "tiny", "huge", "axis", "equal", "negzero")


def gen_value_(ti, rng, ds, role="any"):
    b = ti.base
    if ti.shape == "prim":
        return gen_num(b, rng, ds, role)
    cls = ti.pycls()
    if ti.shape == "frustumtest":
        sfx = "f" if ti.fbase == "f32" else "d"
        if ds == "nice" or rng.random() < 0.6:
            n_ = rng.uniform(0.5, 2.0)
            fr = getattr(imath, "Frustum" + sfx)(n_, n_ + rng.uniform(4.0, 30.0), -rng.uniform(0.3, 2.0), rng.uniform(0.3, 2.0),
                                                 rng.uniform(0.3, 2.0), -rng.uniform(0.3, 2.0), bool(rng.getrandbits(1)))
        else:
            fr = getattr(imath, "Frustum" + sfx)()
        m = getattr(imath, "M44" + sfx)()
        if rng.random() < 0.7:
            m.setTranslation(getattr(imath, "V3" + sfx)(rng.uniform(-2, 2), rng.uniform(-2, 2), rng.uniform(-2, 2)))
        ft = cls(fr, m)
        return Fresh(lambda ft=ft: ft, "FrustumTest%s(%r, %r)" % (sfx, fr, m))
    if ti.shape == "order":
        vals = sorted(cls.values.items())
        return vals[rng.randrange(len(vals))][1]
    if ti.isfloat and ds != "nice" and ti.shape in ("vec", "color", "quat") and role not in ("divisor", "shift") and rng.random() < 0.3:
        return special_element(ti, rng, rng.choice(SPECIALS))
    if ti.shape in ("vec", "color"):
        return cls(*[gen_num(b, rng, ds, role) for _ in range(ti.n)])
    if ti.shape == "quat":
        q = [gen_num(b, rng, ds, role) for _ in range(4)]
        if ds == "nice" and rng.random() < 0.5:
            nrm = math.sqrt(sum(x * x for x in q)) or 1.0
            q = [x / nrm for x in q]
        return cls(*q)
    if ti.shape == "mat":
        vals = [gen_num(b, rng, ds, role) for _ in range(ti.n)]
        if ds != "nice" and ti.isfloat and not SAFE and rng.random() < 0.1:
            return cls(*([0.0] * ti.n)) if rng.random() < 0.5 else cls()      # the zero matrix / the identity
        if ds != "nice" and rng.random() < 0.15:      # singular: two equal rows
            d = ti.dim
            vals[d:2 * d] = vals[0:d]
        if SAFE:                                       # affine: last column (0,..,0,1)
            d = ti.dim
            for r_ in range(d):
                vals[r_ * d + d - 1] = type(vals[0])(1 if r_ == d - 1 else 0)
        return cls(*vals)
    if ti.shape == "euler":
        return cls(*[rng.uniform(-3.0, 3.0) if ds == "nice" else gen_num(b, rng, ds, role) for _ in range(3)])
    if ti.shape == "box":
        vc = ti.inner.pycls()
        a = [gen_num(b, rng, ds, role) for _ in range(ti.inner.n)]
        c = [gen_num(b, rng, ds, role) for _ in range(ti.inner.n)]
        if ds == "nice" or rng.random() < 0.7:
            try:
                a, c = [min(x, y) for x, y in zip(a, c)], [max(x, y) for x, y in zip(a, c)]
            except Exception:
                pass
        return cls(vc(*a), vc(*c))
    raise ValueError("cannot generate " + ti.cxx)


class Fresh:
    """a scalar argument that is re-made for every call (opaque objects: FrustumTest)"""

    def __init__(self, fn, desc):
        self.fn, self.desc = fn, desc

    def __repr__(self):
        return self.desc


def _attr(o, n):
    v = getattr(o, n)
    return v() if callable(v) else v


def flat(ti, v):
    """python element -> list of numbers"""
    s = ti.shape
    if s == "prim":
        return [v]
    if s == "frustumtest":
        return []
    if s == "order":
        return [int(v)]
    if s == "vec":
        return [v.x, v.y] if ti.n == 2 else ([v.x, v.y, v.z] if ti.n == 3 else [v.x, v.y, v.z, v.w])
    if s == "color":
        return [v.r, v.g, v.b] if ti.n == 3 else [v.r, v.g, v.b, v.a]
    if s == "quat":
        w = v.v()
        return [v.r(), w.x, w.y, w.z]
    if s == "mat":
        return [c for row in v for c in row]
    if s == "euler":
        return [v.x, v.y, v.z, int(v.order())]
    if s == "box":
        return flat(ti.inner, _attr(v, "min")) + flat(ti.inner, _attr(v, "max"))
    raise ValueError(s)


CANON_NAN = False


def pack(ti, nums):
    if ti.isfloat and CANON_NAN:
        nums = [(float("nan") if (isinstance(x, float) and x != x) else x) for x in nums]
    if ti.isfloat:
        if ti.shape == "euler":
            out = []
            for k in range(0, len(nums), 4):
                out.append(struct.pack("<3dq", *nums[k:k + 4]))
            return b"".join(out)
        return struct.pack("<%dd" % len(nums), *nums)
    return struct.pack("<%dq" % len(nums), *[int(x) for x in nums])


def unflat(ti, nums):
    """inverse of flat"""
    cls = ti.pycls()
    if ti.shape == "prim":
        return nums[0]
    if ti.shape in ("vec", "color", "quat", "mat"):
        try:
            return cls(*nums)
        except OverflowError:
            if ti.shape != "vec":
                raise
            # the V2 constructors range-check their arguments (numeric_cast: inf is refused); the attribute setters do not
            o = cls(*([0] * ti.n))
            for nm, v in zip("xyzw", nums):
                setattr(o, nm, v)
            return o
    if ti.shape == "euler":
        return cls(nums[0], nums[1], nums[2])
    if ti.shape == "box":
        vc = ti.inner.pycls()
        k = ti.inner.n
        return cls(vc(*nums[:k]), vc(*nums[k:]))
    raise ValueError(ti.shape)


def copy_elem(ti, v):
    if isinstance(v, Fresh):
        return v.fn()
    if ti.shape in ("prim", "order", "frustumtest"):
        return v
    if ti.shape in ("euler",):
        return type(v)(v)
    try:
        return unflat(ti, flat(ti, v))
    except Exception:
        pass
    try:
        return type(v)(v)
    except Exception:
        return v        # e.g. V2i64 holding values its python constructor refuses: use the reference itself


PY2TI = {}      # python class name -> ("array"|"scalar", TI)


def classify_obj(o):
    n = type(o).__name__
    if n in PY2TI:
        return PY2TI[n]
    return None


def snap_obj(o):
    """canonical bytes of any result object"""
    if o is None:
        return b"N"
    if isinstance(o, bool):
        return b"b" + struct.pack("<q", int(o))
    if isinstance(o, int):
        return b"i" + struct.pack("<q", o) if -2 ** 63 <= o < 2 ** 63 else b"I" + str(o).encode()
    if isinstance(o, float):
        return b"f" + struct.pack("<d", float("nan") if (CANON_NAN and o != o) else o)
    if isinstance(o, (tuple, list)):
        return b"T" + b"|".join(snap_obj(x) for x in o)
    c = classify_obj(o)
    if c is None:
        return b"R" + repr(o).encode()
    kind, ti = c
    if kind == "scalar":
        return b"S" + pack(ti, flat(ti, o))
    nums = []
    if ti.shape == "prim":
        nums = list(o)
    else:
        for e in o:
            nums.extend(flat(ti, e))
    return b"A" + struct.pack("<q", len(o)) + pack(ti, nums)


def elems(o):
    """list of element copies of an array object"""
    kind, ti = classify_obj(o)
    if ti.shape == "prim":
        return list(o)
    # references into the array (kept alive by Boost.Python): the python constructors of the 64-bit integer
    # vectors convert through double, so copying through them would round large values
    return [e for e in o]


# --------------------------------------------------------------------------- entry points

UNGENERABLE_HINT = ("_object*", "boost::python", "unsigned long", "basic_string", "FixedVArray", "StringArrayT",
                    "Rand32", "Rand48", "FixedArray2D", "FixedMatrix", "void*")
PROTOCOL_NAMES = {"__getitem__", "__setitem__", "__len__", "__reduce__", "__getstate__", "__setstate__", "__copy__",
                  "__deepcopy__", "__repr__", "__str__", "__hash__", "makeReadOnly", "writable"}


class EP:
    pass


def learn_types(overloads_by_owner):
    for owner, name, ov in overloads_by_owner:
        if len(ov["pyargs"]) == len(ov["cargs"]):
            for (pt, _), (ct, _) in zip(ov["pyargs"], ov["cargs"]):
                if ct not in CXX2PY and (ct.startswith("PyImath::FixedArray<") or COMPOSITE_RE.match(ct)):
                    if hasattr(imath, pt):
                        CXX2PY[ct] = pt
        ct, pt = ov["cret"], ov["pyret"]
        if pt and ct not in CXX2PY and (ct.startswith("PyImath::FixedArray<") or COMPOSITE_RE.match(ct)) and hasattr(imath, pt):
            CXX2PY[ct] = pt
    for ct, pn in list(CXX2PY.items()):
        e = arr_elem(ct)
        if e is not None:
            ti = TI.get(e)
            if ti.ok:
                PY2TI[pn] = ("array", ti)
        else:
            ti = TI.get(ct)
            if ti.ok:
                PY2TI[pn] = ("scalar", ti)


def make_ep(owner, name, ov):
    e = EP()
    e.owner, e.name, e.k, e.sig = owner, name, ov["k"], ov["sig"]
    e.cret, e.cargs = ov["cret"], ov["cargs"]
    e.key = "%s.%s#%d" % (owner or "imath", name, ov["k"])
    e.skip = None
    e.ctor = False
    args = list(e.cargs)
    if owner is not None and name == "__init__":
        e.ctor = True
        args = args[1:]
    e.args = []       # (kind 'array'|'scalar', TI, lvalue)
    if name in PROTOCOL_NAMES:
        e.skip = "indexing/pickling protocol (property C19)"
    for t, lv in args:
        el = arr_elem(t)
        ti = TI.get(el if el is not None else t)
        if not ti.ok:
            e.skip = e.skip or ("argument type not generable: " + t)
            continue
        if el is not None and ti.arraycls() is None:
            e.skip = e.skip or ("no python class known for " + t)
        if el is None and ti.shape != "prim" and ti.pycls() is None:
            e.skip = e.skip or ("no python class known for " + t)
        e.args.append(("array" if el is not None else "scalar", ti, lv))
    if e.ctor and not any(k == "array" for k, _, _ in e.args):
        e.skip = e.skip or "constructor without array argument"
    rt = e.cret
    rel = arr_elem(rt)
    if e.ctor:
        if owner not in PY2TI or PY2TI[owner][0] != "array":
            e.skip = e.skip or "constructs %s, not a FixedArray (variable-length / string arrays are out of scope)" % owner
    elif rt not in ("void", "_object*") and not TI.get(rel if rel is not None else rt).ok:
        e.skip = e.skip or ("result type not serialisable: " + rt)
    if owner is not None and not e.ctor and not e.args:
        e.skip = e.skip or "static/no self"
    e.method = owner is not None and not e.ctor
    return e


ARRAYLIKE = []      # keys of all overloads whose C++ signature mentions any array-like type


def enumerate_entry_points():
    raw = []
    for cn in sorted(dir(imath)):
        c = getattr(imath, cn)
        if isinstance(c, type):
            for mn in sorted(dir(c)):
                if mn in ("__class__",):
                    continue
                try:
                    m = getattr(c, mn)
                except Exception:
                    continue
                d = getattr(m, "__doc__", None)
                if not isinstance(d, str) or "C++ signature" not in d:
                    continue
                if mn not in c.__dict__:       # inherited: belongs to the base class
                    continue
                for k, ov in enumerate(parse_doc(d)):
                    raw.append((cn, mn, dict(ov, k=k)))
        elif callable(c):
            d = getattr(c, "__doc__", None)
            if isinstance(d, str) and "C++ signature" in d:
                for k, ov in enumerate(parse_doc(d)):
                    raw.append((None, cn, dict(ov, k=k)))
    learn_types(raw)
    eps, nonvec = [], 0
    del ARRAYLIKE[:]
    for owner, name, ov in raw:
        types = [ov["cret"]] + [t for t, _ in ov["cargs"]]
        if re.search(r"Fixed(Array2D|Array|Matrix|VArray)<|StringArrayT<", ov["sig"]):
            ARRAYLIKE.append("%s.%s#%d" % (owner or "imath", name, ov["k"]))
        if not any(ARRAY_RE.match(t) for t in types):
            nonvec += 1
            continue
        e = make_ep(owner, name, ov)
        eps.append(e)
    return eps, nonvec, len(raw)


CORE_CLASSES = {"IntArray", "FloatArray", "V3fArray", "QuatfArray", "M44fArray", "Box3f", "M44f", "FrustumTestf", "FrustumTestd"}
CORE_NAMES = re.compile(r"^__(i|r)?(add|sub|mul|div|truediv|neg|mod|eq|ne|lt|le|gt|ge)__$")


HAND_TASK_OWNERS = re.compile(r"^(Quat[fd]Array|M44[fd]Array|M33[fd]Array|M22[fd]Array|Box[23](f|d|i|s|i64)|FrustumTest[fd]|Euler[fd]Array)$")


def is_always(e):
    """exercised in EVERY quick run (not seed-rotated): the owners of the hand-written Task structs (PyImathQuat.cpp,
    PyImathMatrix*.cpp, PyImathBox.cpp, PyImathFrustum.cpp) and the many-array constructors"""
    # (every entry point of those owners, the operators included: QuatArray's `V3Array * QuatArray`, M44Array's products, …
    # are hand-written Task structs too; a round-3 seeded change sat in one that the seed rotation happened not to select)
    if e.owner and HAND_TASK_OWNERS.match(e.owner) and not is_core(e):
        return True
    # the vector operations that have failure inputs (zero / denormal / overflowing vectors): array and scalar forms are
    # different functions there (op_vecNormalized* vs Vec::normalized*)
    if e.owner and re.match(r"^V[234][fd]Array$", e.owner) and re.search(r"normaliz|length", e.name):
        return True
    return e.ctor and sum(1 for k, _, _ in e.args if k == "array") >= 9


def is_core(e):
    if e.owner in ("Box3f", "M44f", "FrustumTestf", "FrustumTestd"):
        return True
    if e.owner in ("QuatfArray", "M44fArray"):
        return not CORE_NAMES.match(e.name) and not e.name.startswith("__")
    return e.owner in CORE_CLASSES and bool(CORE_NAMES.match(e.name))


# --------------------------------------------------------------------------- argument construction


def role_for(e, pos, ti):
    n = e.name.lower()
    if not ti.isfloat and ti.base != "bool":
        if "div" in n or "mod" in n:
            return "divisor"
        if "shift" in n:
            return "shift"
    if n in ("acos", "asin") or "lerpfactor" in n:
        return "any"
    return "any"


# every component `add_property` of the array classes that yields a FixedArray python can hold (V*i64Array.x etc. raise: no
# Int64Array class, open finding) is a carrier: (array class, element class, component property names)
STRIDED_PRIM = {"f32": [("V3fArray", "V3f", "xyz"), ("QuatfArray", "Quatf", ("r", "x", "y", "z")), ("C4fArray", "Color4f", "rgba"),
                        ("V2fArray", "V2f", "xy"), ("V4fArray", "V4f", "xyzw"), ("C3fArray", "Color3f", "rgb")],
                "f64": [("V3dArray", "V3d", "xyz"), ("QuatdArray", "Quatd", ("r", "x", "y", "z")), ("V2dArray", "V2d", "xy"), ("V4dArray", "V4d", "xyzw")],
                "i32": [("V3iArray", "V3i", "xyz"), ("V2iArray", "V2i", "xy"), ("V4iArray", "V4i", "xyzw")],
                "i16": [("V3sArray", "V3s", "xyz"), ("V2sArray", "V2s", "xy"), ("V4sArray", "V4s", "xyzw")],
                "u8": [("C4cArray", "Color4c", "rgba"), ("C3cArray", "Color3c", "rgb")]}
STRIDED_USED = set()      # component properties used as strided sources in this process
BOX_SFX = {"f32": "f", "f64": "d", "i32": "i", "i16": "s", "i64": "i64"}


def strided_sources(ti):
    """array classes one of whose component properties is a STRIDED FixedArray of element type ti:
    [(array class, element class, component names)]"""
    out = []
    if ti.shape == "prim":
        for an, en, comps in STRIDED_PRIM.get(ti.base, []):
            if hasattr(imath, an) and hasattr(imath, en):
                out.append((getattr(imath, an), getattr(imath, en), tuple(comps)))
    elif ti.shape == "vec" and ti.n in (2, 3) and ti.base in BOX_SFX:
        an, en = "Box%d%sArray" % (ti.n, BOX_SFX[ti.base]), "Box%d%s" % (ti.n, BOX_SFX[ti.base])
        if hasattr(imath, an) and hasattr(imath, en):
            out.append((getattr(imath, an), getattr(imath, en), ("min", "max")))
    return out


class ArgSpec:
    """a generated argument: values + how it is presented (direct / masked / strided / strided-masked / scalar)"""

    def __init__(self, kind, ti, lv, mode, values, under=None, idx=None):
        self.kind, self.ti, self.lv, self.mode = kind, ti, lv, mode
        self.values = values            # python element values (selected elements, in order)
        self.under = under              # masked: values of the whole underlying array
        self.idx = idx                  # masked: selected raw indices
        self.sel = None                 # full-*: element i of the operation reads this argument at sel[i]
        self.src = None                 # strided*: (array class, element class, component names, chosen component)

    def carrier(self, vals):
        """strided*: an array of a composite class whose component `comp` holds vals (the other components hold
        other generated values)"""
        acls, ecls, comps, c = self.src
        n = len(vals)
        v = acls(n)
        for i, x in enumerate(vals):
            parts = [(x if k == c else vals[(i + 1 + k) % n]) for k in range(len(comps))]
            try:
                v[i] = ecls(*parts)
            except OverflowError:
                # V2 constructors range-check (inf refused, open finding V2-constructor-range-check): set the components
                o = ecls()
                for nm, pv in zip(comps, parts):
                    setattr(o, nm, pv)
                v[i] = o
        return v

    def build(self):
        """-> (object passed to the call, underlying array or None)"""
        if self.kind == "scalar":
            return copy_elem(self.ti, self.values), None
        cls = self.ti.arraycls()
        if self.mode == "strided":
            v = self.carrier(self.values)
            return getattr(v, self.src[2][self.src[3]]), v
        if self.mode == "strided-masked":
            u = self.carrier(self.under)
            m = imath.IntArray(len(self.under))
            for i in self.idx:
                m[i] = 1
            return getattr(u, self.src[2][self.src[3]])[m], u
        if self.mode in ("direct", "full-direct"):
            a = cls(len(self.values))
            for i, v in enumerate(self.values):
                a[i] = v
            return a, None
        if self.mode in ("masked", "full-masked"):
            n = len(self.under)
            u = cls(n)
            for i, v in enumerate(self.under):
                u[i] = v
            m = imath.IntArray(n)
            for i in self.idx:
                m[i] = 1
            return u[m], u
        raise ValueError(self.mode)


def pick(s, v, i):
    """the value argument `s` (read back as `v`) contributes to element i of the operation"""
    if s.kind != "array":
        return v
    return v[s.sel[i]] if s.sel is not None else v[i]


def make_spec(e, pos, kind, ti, lv, mode, L, rng, ds):
    role = role_for(e, pos, ti)
    if kind == "scalar":
        return ArgSpec(kind, ti, lv, "scalar", gen_value(ti, rng, ds, role))
    def values(k):
        vs = [gen_value(ti, rng, ds, role) for _ in range(k)]
        if ds == "edge" and not SAFE and ti.isfloat and ti.shape in ("vec", "color", "quat") and role not in ("divisor", "shift"):
            # every edge array holds the whole-element failure inputs (zero vector first) at fixed positions
            for j, w in enumerate(SPECIALS):
                if j < k:
                    try:
                        vs[j] = special_element(ti, rng, w)
                    except Exception:
                        pass
        return vs
    src = None
    if mode.startswith("strided"):
        cands = strided_sources(ti)
        a, b_, comps = cands[rng.randrange(len(cands))]
        src = (a, b_, comps, rng.randrange(len(comps)))
        STRIDED_USED.add("%s.%s" % (a.__name__, comps[src[3]]))
    if mode in ("direct", "full-direct", "strided"):
        sp = ArgSpec(kind, ti, lv, mode, values(L))
        sp.src = src
        return sp
    n = L + L // 3 + 3
    idx = sorted(rng.sample(range(n), L))
    under = [gen_value(ti, rng, ds, role) for _ in range(n)]
    vs = values(L)
    for i, v in zip(idx, vs):
        under[i] = v
    sp = ArgSpec(kind, ti, lv, mode, vs, under, idx)
    sp.src = src
    return sp


def readback(spec, obj):
    """element values as the module stores them (after conversion to the element type)"""
    if spec.kind == "scalar":
        return obj
    return elems(obj)


# --------------------------------------------------------------------------- calling


def do_call(e, objs):
    if e.owner is None:
        return getattr(imath, e.name)(*objs)
    if e.ctor:
        return getattr(imath, e.owner)(*objs)
    return getattr(objs[0], e.name)(*objs[1:])


GUARD = False      # triage mode: every call is first made in a forked child


class CrashFound(Exception):
    pass


def forked(fn):
    """run fn() in a forked child; -> None if it exits normally, else the terminating signal number"""
    sys.stdout.flush()
    sys.stderr.flush()
    pid = os.fork()
    if pid == 0:
        try:
            faulthandler.disable()
            fn()
        except BaseException:
            pass
        os._exit(0)
    _, status = os.waitpid(pid, 0)
    if os.WIFSIGNALED(status):
        return os.WTERMSIG(status)
    return None


def guarded_call(e, objs_factory):
    """triage mode: make the call in a forked child first; raise CrashFound if it dies"""
    if GUARD:
        objs = objs_factory()
        sig = forked(lambda: do_call(e, objs))
        if sig is not None:
            raise CrashFound(sig)


def run_once(e, specs):
    """build fresh arguments, call, snapshot. -> ('ok', resultbytes, [lvalue snapshots], result, objs) | ('raise', type, msg)"""
    built = [s.build() for s in specs]
    objs = [b[0] for b in built]
    if GUARD:
        sig = forked(lambda: do_call(e, objs))
        if sig is not None:
            raise CrashFound(sig)
        built = [s.build() for s in specs]
        objs = [b[0] for b in built]
    try:
        r = do_call(e, objs)
    except Exception as ex:   # noqa
        return ("raise", type(ex).__name__, str(ex)[:200], None, None)
    lsn = []
    for s, (o, u) in zip(specs, built):
        if s.lv or (s.kind == "array" and s.mode in ("masked", "strided", "strided-masked")):
            lsn.append(snap_obj(u if u is not None else o))
        else:
            lsn.append(None)
    return ("ok", snap_obj(r), lsn, r, built)


def partitions(L, rng, reps_threaded=1, full=True):
    """[(ranges, threaded, label)]"""
    P = []
    cuts = sorted(set(c for c in (0, 1, 199, 200, 201, L - 1, L // 2, L) if 0 <= c <= L))
    P.append(([(0, L)], False, "single"))
    for c in cuts:
        P.append(([(0, c), (c, L)], False, "2way@%d" % c))
    for c in (1, 200):
        if c <= L:
            P.append(([(c, L), (0, c)], False, "2way-rev@%d" % c))
    three = [(1, 200), (199, 201), (100, 200), (200, 201), (0, L - 1), (200, 200)]
    for c1, c2 in three:
        if 0 <= c1 <= c2 <= L:
            rs = [(0, c1), (c1, c2), (c2, L)]
            P.append((rs, False, "3way@%d,%d" % (c1, c2)))
            if full:
                P.append(([rs[2], rs[0], rs[1]], False, "3way-rot@%d,%d" % (c1, c2)))
    for k in ((4, 9, 16) if full else (5,)):
        cs = sorted(rng.randrange(0, L + 1) for _ in range(k - 1))
        rs = [(a, b) for a, b in zip([0] + cs, cs + [L])]
        rng.shuffle(rs)
        P.append((rs, False, "rand%d" % k))
    # worker ids REUSED: more sub-ranges than workers (tid-indexed per-thread storage must accumulate)
    def cuts_k(k):
        cs = sorted(set([1, L // 3 + 1] + [rng.randrange(0, L + 1) for _ in range(k - 3)]))
        while len(cs) < k - 1:
            cs = sorted(set(cs + [rng.randrange(0, L + 1)]))
        return [(a, b) for a, b in zip([0] + cs, cs + [L])]
    r5 = cuts_k(5)
    rr = [(a, b, k % 2) for k, (a, b) in enumerate(r5)]                  # 2 workers x 5 sub-ranges, round-robin
    P.append((rr, False, "tids-rr2x5"))
    P.append((rr[::-1], False, "tids-rr2x5-rev"))
    one = [(a, b, 0) for a, b in r5]                                     # everything on worker 0
    P.append((one, False, "tids-all0"))
    P.append((one[::-1], False, "tids-all0-rev"))
    if full:
        r7 = cuts_k(7)
        rnd = [(a, b, rng.randrange(3)) for a, b in r7]
        rng.shuffle(rnd)
        P.append((rnd, False, "tids-rand3x7"))
        hi = [(a, b, 1 if k == 0 else 3) for k, (a, b) in enumerate(r5)]  # sparse ids: workers() = 4, ids 0 and 2 idle
        P.append((hi, False, "tids-sparse"))
    P.append((rr, True, "thr-tids-rr2x5"))
    for rep in range(reps_threaded):
        P.append(([(0, 200), (200, L)], True, "thr-2way@200"))
        c1 = rng.randrange(0, L + 1)
        c2 = rng.randrange(c1, L + 1)
        P.append(([(c2, L), (0, c1), (c1, c2)], True, "thr-3way@%d,%d" % (c1, c2)))
        cs = sorted(rng.randrange(0, L + 1) for _ in range(7))
        rs = [(a, b) for a, b in zip([0] + cs, cs + [L])]
        rng.shuffle(rs)
        P.append((rs, True, "thr-rand8"))
    return P


# --------------------------------------------------------------------------- scalar reference

def wrap_int(base, v):
    if base == "bool":
        return bool(v)
    lo, hi = INT_RANGE[base]
    m = hi - lo + 1
    return (int(v) - lo) % m + lo


def c_div(a, b):
    q = abs(a) // abs(b)
    return q if (a < 0) == (b < 0) else -q


def c_mod(a, b):
    return a - b * c_div(a, b)


def fdiv(a, b):
    try:
        return a / b
    except ZeroDivisionError:
        if a != a or a == 0:
            return float("nan")
        return math.copysign(float("inf"), a) * math.copysign(1.0, b)


_LIBM = None


def libm_pow(base, a, b):
    """std::pow at the element precision: powf / pow of the C library the module itself calls"""
    global _LIBM
    if _LIBM is None:
        _LIBM = ctypes.CDLL("libm.so.6")
        _LIBM.pow.restype = ctypes.c_double
        _LIBM.pow.argtypes = [ctypes.c_double, ctypes.c_double]
        _LIBM.powf.restype = ctypes.c_float
        _LIBM.powf.argtypes = [ctypes.c_float, ctypes.c_float]
    return _LIBM.powf(a, b) if base == "f32" else _LIBM.pow(a, b)


def builtin_ref(name, ti, a, rest):
    """C semantics of the operator `name` on primitive element type `ti.base`; returns (value, 'exact')
    or None when no reference is defined."""
    b = rest[0] if rest else None
    base = ti.base
    n = name.strip("_")
    inplace = n.startswith("i") and n not in ("invert",)
    if inplace:
        n = n[1:]
    if n.startswith("r") and n in ("radd", "rsub", "rmul", "rpow", "rdiv", "rtruediv"):
        n = n[1:]
        a, b = b, a
    cmpops = {"eq": lambda x, y: x == y, "ne": lambda x, y: x != y, "lt": lambda x, y: x < y, "le": lambda x, y: x <= y,
              "gt": lambda x, y: x > y, "ge": lambda x, y: x >= y}
    if n in cmpops and b is not None:
        return int(cmpops[n](a, b)), "cmp"
    if ti.isfloat:
        rnd = f32 if base == "f32" else (lambda x: x)
        try:
            if n == "add":
                return rnd(a + b), "val"
            if n == "sub":
                return rnd(a - b), "val"
            if n == "mul":
                return rnd(a * b), "val"
            if n in ("div", "truediv"):
                return rnd(fdiv(a, b)), "val"
            if n == "neg":
                return -a, "val"
            if n == "pow" and b is not None:
                return libm_pow(base, a, b), "val"
        except OverflowError:
            return None
        return None
    # integers: C semantics in the promoted type, converted back to the element type
    if base == "bool":
        return None
    if n == "add":
        return wrap_int(base, a + b), "val"
    if n == "sub":
        return wrap_int(base, a - b), "val"
    if n == "mul":
        return wrap_int(base, a * b), "val"
    if n in ("div", "truediv") and b not in (0, None):
        return wrap_int(base, c_div(a, b)), "val"
    if n == "mod" and b not in (0, None):
        return wrap_int(base, c_mod(a, b)), "val"
    if n == "neg":
        return wrap_int(base, -a), "val"
    if n == "and":
        return wrap_int(base, a & b), "val"
    if n == "or":
        return wrap_int(base, a | b), "val"
    if n == "xor":
        return wrap_int(base, a ^ b), "val"
    if n == "invert":
        return wrap_int(base, ~a), "val"
    if n == "lshift" and 0 <= b < 31:
        return wrap_int(base, a << b), "val"
    if n == "rshift" and 0 <= b < 31:
        return wrap_int(base, a >> b), "val"
    return None


def ulps(base, a, b):
    """distance in units of the last place of the element precision (None: not comparable)"""
    if a == b:
        return 0
    if a != a and b != b:
        return 0
    if a != a or b != b or math.isinf(a) or math.isinf(b):
        return None
    if base == "f32":
        try:
            ia = struct.unpack("<i", struct.pack("<f", a))[0]
            ib = struct.unpack("<i", struct.pack("<f", b))[0]
        except OverflowError:
            return None
        off = 0x80000000
    else:
        ia = struct.unpack("<q", struct.pack("<d", a))[0]
        ib = struct.unpack("<q", struct.pack("<d", b))[0]
        off = 1 << 63
    ia = off - ia if ia < 0 else ia + off
    ib = off - ib if ib < 0 else ib + off
    return abs(ia - ib)


def bump(base, x):
    """x moved away from zero by one unit in the last place of its precision (f32 / f64); 0 -> the smallest denormal"""
    if base == "f32":
        b = struct.unpack("<I", struct.pack("<f", x))[0]
        return struct.unpack("<f", struct.pack("<I", (b + 1) & 0xffffffff))[0] if (b & 0x7fffffff) < 0x7f7fffff else x
    b = struct.unpack("<Q", struct.pack("<d", x))[0]
    return struct.unpack("<d", struct.pack("<Q", (b + 1) & 0xffffffffffffffff))[0] if (b & 0x7fffffffffffffff) < 0x7fefffffffffffff else x


def round_to(ti, v):
    """a python scalar result -> the value an array of element type ti would hold"""
    if ti.shape == "prim":
        if ti.base == "f32":
            return f32(v)
        if ti.base == "f64":
            return float(v)
        if ti.base == "bool":
            return bool(v)
        return int(v)
    return v


# --------------------------------------------------------------------------- exercising one entry point

# The array method and the scalar method it corresponds to have different NAMES in these cases
# (the array docstring says which scalar function is applied element by element).
SCALAR_NAME = {
    # QuatArray.slerp: "Return the element-by-element shortest arc spherical linear interpolation"
    # = op_quatSlerp = IMATH_NAMESPACE::slerpShortestArc (PyImathQuatOperators.h:33-37); the scalar
    # Quat.slerp is IMATH_NAMESPACE::slerp, Quat.slerpShortestArc is the corresponding binding.
    ("QuatfArray", "slerp"): "slerpShortestArc", ("QuatdArray", "slerp"): "slerpShortestArc",
    # QuatArray.dot / euclideanInnerProduct: the scalar class spells the inner product `^`
    ("QuatfArray", "dot"): "__xor__", ("QuatdArray", "dot"): "__xor__",
    ("QuatfArray", "euclideanInnerProduct"): "__xor__", ("QuatdArray", "euclideanInnerProduct"): "__xor__",
}


def scalar_name(e):
    return SCALAR_NAME.get((e.owner, e.name), e.name)


PRIM_LETTER = {"f32": "f", "f64": "d", "i16": "s", "i32": "i", "i64": "l", "u8": "c"}


def ref_key(sargs, spelling, module=False):
    """the scalar reference just used, in the key format of the scalar-vs-C++ table (c20_scalar_ref list):
    Class.method(Class,ArgType,...) / imath.fn(d,i,...)"""
    def tn(x, letter):
        if isinstance(x, bool):
            return "b"
        if isinstance(x, (int, float)):
            return letter if not module else ("d" if isinstance(x, float) else "i")
        return type(x).__name__
    if module:
        return "imath.%s(%s)" % (spelling, ",".join(tn(a, None) for a in sargs))
    c = classify_obj(sargs[0])
    letter = PRIM_LETTER.get(c[1].base, "?") if c else "?"
    return "%s.%s(%s)" % (type(sargs[0]).__name__, spelling, ",".join(tn(a, letter) for a in sargs))


class NoRef(Exception):
    pass


class SkipElement(Exception):
    pass


# NAMED tolerance list: everything else must be bit-identical to the scalar binding.
TOLERANCE = {
    # QuatArray ^ QuatArray is op_quatDot = euclideanInnerProduct (r*r' + x*x' + y*y' + z*z', PyImathQuatOperators.h);
    # the scalar Quat.__xor__ is Quat::operator^ (r*r' + (v ^ v')): another summation order
    ("QuatfArray", "__xor__"): "array: euclideanInnerProduct, scalar `^`: r*r' + v.dot(v') (summation order)",
    ("QuatdArray", "__xor__"): "array: euclideanInnerProduct, scalar `^`: r*r' + v.dot(v') (summation order)",
    ("QuatfArray", "dot"): "array: euclideanInnerProduct, scalar `^`: r*r' + v.dot(v') (summation order)",
    ("QuatdArray", "dot"): "array: euclideanInnerProduct, scalar `^`: r*r' + v.dot(v') (summation order)",
    ("QuatfArray", "euclideanInnerProduct"): "array: euclideanInnerProduct, scalar `^`: r*r' + v.dot(v') (summation order)",
    ("QuatdArray", "euclideanInnerProduct"): "array: euclideanInnerProduct, scalar `^`: r*r' + v.dot(v') (summation order)",
}
MODULE_FLOAT_REASON = ("module function on FloatArray: python floats always select the `double` overload of the scalar binding, "
                       "so the reference is evaluated in double and rounded (the float overload is tied bit-exactly to the C++ "
                       "library by c20_scalar on 1-element arrays)")


def tolerance_reason(e, how, specs, tti):
    r = TOLERANCE.get((e.owner or "imath", e.name))
    if r:
        return r
    if how == "module" and (tti.base == "f32" or any(s.ti.base == "f32" for s in specs)):
        return MODULE_FLOAT_REASON
    return None


def canon_pack(ti, nums):
    global CANON_NAN
    CANON_NAN = True
    try:
        return pack(ti, nums)
    finally:
        CANON_NAN = False


def scalar_eval(e, how, sargs, tti):
    """the scalar binding applied to one element's worth of arguments (may raise)"""
    if how == "module":
        return getattr(imath, e.name)(*sargs)
    if how == "ctor":
        return tti.pycls()(*sargs)
    if how == "builtin":
        rr = builtin_ref(e.name, TI.get(e.args[0][1].cxx), sargs[0], sargs[1:])
        return rr[0] if rr is not None else None
    return getattr(sargs[0], scalar_name(e))(*sargs[1:])


class Out:
    def __init__(self, path):
        self.f = open(path, "a")

    def put(self, d):
        self.f.write(json.dumps(d, default=str) + "\n")
        self.f.flush()


def desc_ranges(rs):
    """[[start, end, tid]] as handed to the pool"""
    return [[r[0], r[1], (r[2] if len(r) > 2 else k)] for k, r in enumerate(rs)]


def first_diff(a, b):
    if a is None or b is None:
        return None
    n = min(len(a), len(b))
    for i in range(n):
        if a[i] != b[i]:
            return i
    return n if len(a) != len(b) else None


def kinds_label(specs):
    return ",".join(("scalar" if s.kind == "scalar" else s.mode) for s in specs)


def combos_for(e, rng, full):
    """list of per-argument modes; scalars fixed"""
    apos = [i for i, (k, _, _) in enumerate(e.args) if k == "array"]
    res = []
    n = len(apos)
    if n == 0:
        return [["scalar"] * len(e.args)]
    if n <= 3:
        for bits in range(2 ** n):
            res.append({p: ("masked" if bits >> j & 1 else "direct") for j, p in enumerate(apos)})
    else:
        res.append({p: "direct" for p in apos})
        res.append({p: "masked" for p in apos})
        for j in range(min(n, 3 if not full else 6)):
            q = rng.choice(apos)
            res.append({p: ("masked" if p == q else "direct") for p in apos})
        res.append({p: rng.choice(("masked", "direct")) for p in apos})
    # STRIDED presentations (component views of composite arrays: _stride > 1) and masked references ON strided
    # arrays, one argument at a time, then all together
    sp = [p for p in apos if strided_sources(e.args[p][1])]
    for q in (sp if full else sp[rng.randrange(len(sp)):][:1] if sp else []):
        res.append({p: ("strided" if p == q else "direct") for p in apos})
        res.append({p: ("strided-masked" if p == q else "direct") for p in apos})
    if len(sp) > 1:
        res.append({p: ("strided-masked" if p in sp else "masked") for p in apos})
        if full:
            res.append({p: ("strided" if p in sp else "direct") for p in apos})
    out = []
    for r in res:
        out.append([r.get(i, "scalar") for i in range(len(e.args))])
    # in-place operators (VectorizedVoidMaskableMemberFunction1): a masked self also accepts an argument of
    # its UNMASKED length, read at raw_ptr_index(i)
    if e.method and len(e.args) == 2 and e.args[0][0] == "array" and e.args[0][2] and e.args[1][0] == "array":
        out.append(["masked", "full-direct"])
        out.append(["masked", "full-masked"])
    return out


class Exerciser:
    def __init__(self, opts, out):
        self.o = opts
        self.out = out
        self.viol_keys = set()
        self.nan_only_count = 0

    def violate(self, kind, e, kinds, what, replay, key=None):
        key = key or "%s:%s(%s)|%s" % (kind, e.key, e.sig.split("(", 1)[1].rstrip(")")[:160], kinds)
        if key in self.viol_keys:
            return
        self.viol_keys.add(key)
        replay = dict(replay, entry=e.key, cxx_signature=e.sig, kinds=kinds, seed=self.o["seed"],
                      rerun="VERIF_SEED=%d python3 tools/check.py C20 --tier thorough  (or harness `run` with only=%s)" % (
                          self.o["seed"], e.key))
        self.out.put({"t": "viol", "kind": kind, "key": key, "what": what, "replay": replay})

    # ...................................................................
    def exercise(self, e):
        o = self.o
        rng = random.Random("%d:%s" % (o["seed"], e.key))
        summ = {"t": "ep", "key": e.key, "sig": e.sig, "runs": 0, "partitions": 0, "dispatches": 0, "raises": 0,
                "kinds": {}, "scalar_checked": 0, "scalar_exact": 0, "scalar_ulp_max": 0, "scalar_ref": None,
                "mismatch_len": None, "serial": None, "lengths": [], "threaded_runs": 0}
        full = o["full"] or (o.get("core_full") and is_core(e))
        try:
            return self.exercise_(e, rng, summ, full)
        except CrashFound as cf:
            summ["crashed_signal"] = cf.args[0]
            self.out.put(summ)
            return summ

    def exercise_(self, e, rng, summ, full):
        o = self.o
        combos = combos_for(e, rng, full)
        lengths_all = [0, 1, 7, 199, 200, 201, 257, 1000]
        dispatched_at = {}
        for ci, modes in enumerate(combos):
            first = ci == 0
            for ds in ("nice", "edge"):
                if ds == "edge" and not (first or full):
                    continue
                if first and ds == "nice":
                    Ls = lengths_all
                elif full:
                    Ls = [7, 201, 257] if ds == "nice" else [7, 257]
                else:
                    Ls = [7, 257] if ds == "nice" else [7, 201]      # (7: the edge dataset is scalar-checked in every tier)
                for L in Ls:
                    self.one_config(e, modes, ds, L, rng, summ, full, dispatched_at)
        # aliasing: the same array object as self and argument (identical-index aliasing)
        self.alias_config(e, rng, summ)
        # threshold / worker flag
        ser = None
        if dispatched_at:
            big = [L for L, d in dispatched_at.items() if L > 200]
            small = [L for L, d in dispatched_at.items() if L <= 200 and d > 0]
            ser = not any(dispatched_at[L] > 0 for L in big) if big else None
            if small:
                self.violate("threshold", e, "-", "pool used for length <= 200",
                             {"lengths_dispatched": small})
            if ser is False:
                missing = [L for L in big if dispatched_at[L] == 0]
                if missing:
                    self.violate("threshold", e, "-", "pool not used for a length > 200 although it is for others",
                                 {"lengths_not_dispatched": missing, "dispatched_at": dispatched_at})
        summ["serial"] = ser
        summ["dispatched_at"] = dispatched_at
        self.mismatch_lengths(e, rng, summ)
        self.out.put(summ)
        return summ

    # ...................................................................
    def one_config(self, e, modes, ds, L, rng, summ, full, dispatched_at):
        o = self.o
        specs = []
        for pos, ((kind, ti, lv), mode) in enumerate(zip(e.args, modes)):
            if mode.startswith("full-"):
                sp = make_spec(e, pos, kind, ti, lv, mode, len(specs[0].under), rng, ds)
                sp.sel = specs[0].idx
                specs.append(sp)
            else:
                specs.append(make_spec(e, pos, kind, ti, lv, mode, L, rng, ds))
        # reductions into a scalar self (Box.extendBy(array): tid-indexed partial results): put the extreme
        # elements into sub-ranges that are NOT the last ones of their worker in the reused-worker-id scripts
        # (those cut at 1 and at L//3+1), so a partial result that is overwritten instead of extended shows
        if e.method and e.args and e.args[0][0] == "scalar" and e.args[0][2] and ds == "nice" and L > 3:
            for sp in specs[1:]:
                if sp.kind == "array" and sp.ti.shape in ("vec", "prim") and sp.ti.base != "bool":
                    for j, mag in ((0, 100), (L // 3, -100)):
                        try:
                            val = unflat(sp.ti, [type(flat(sp.ti, sp.values[j])[0])(mag)] * sp.ti.n)
                        except Exception:
                            continue
                        sp.values[j] = val
                        if sp.under is not None:
                            sp.under[sp.idx[j]] = val
        kinds = kinds_label(specs)
        summ["kinds"][kinds] = summ["kinds"].get(kinds, 0) + 1
        if L not in summ["lengths"]:
            summ["lengths"].append(L)
        try:
            self.one_config_(e, specs, kinds, ds, L, rng, summ, full, dispatched_at)
        except CrashFound as cf:
            self.crash_triage(e, specs, kinds, ds, L, cf.args[0], summ)
            raise

    def crash_triage(self, e, specs, kinds, ds, L, sig, summ):
        """the array call dies with a signal: does the scalar binding die too on one of the elements?"""
        SHIM.clear()
        how = self.scalar_counterpart(e)
        tti = PY2TI[e.owner][1] if (e.ctor and e.owner in PY2TI) else None
        before = [s.build() for s in specs]
        vals = [readback(s, b[0]) for s, b in zip(specs, before)]
        rd, wr = os.pipe()

        def child():
            for i in range(L):
                sargs = [copy_elem(s.ti, pick(s, v, i)) for s, v in zip(specs, vals)]
                os.write(wr, b"%d\n" % i)
                try:
                    scalar_eval(e, how, sargs, tti)
                except Exception:
                    pass
        ssig = forked(child)
        os.close(wr)
        data = b""
        while True:
            chunk = os.read(rd, 1 << 16)
            if not chunk:
                break
            data += chunk
        os.close(rd)
        idx = int(data.strip().split(b"\n")[-1]) if data.strip() else None
        sargs = None
        if ssig is not None and idx is not None:
            sargs = [repr(pick(s, v, idx)) for s, v in zip(specs, vals)]
        self.out.put({"t": "crash", "key": e.key, "sig": e.sig, "signal": sig, "kinds": kinds, "dataset": ds, "L": L,
                      "scalar_how": how, "scalar_signal": ssig, "scalar_index": idx if ssig is not None else None,
                      "scalar_args": sargs, "values": self.describe_values(specs), "seed": self.o["seed"]})

    def one_config_(self, e, specs, kinds, ds, L, rng, summ, full, dispatched_at):
        o = self.o
        SHIM.clear()
        # a strided argument is a component property (add_property getter) of a composite array: it must READ BACK the values
        # laid into that component (a getter with the wrong offset / stride would otherwise feed both the array call and the
        # scalar reference with the same wrong numbers)
        for s in specs:
            if s.kind == "array" and s.mode in ("strided", "strided-masked") and s.src is not None:
                v_, _u = s.build()
                got = [pack(s.ti, flat(s.ti, x)) for x in elems(v_)]
                want = [pack(s.ti, flat(s.ti, x)) for x in s.values]
                if got != want:
                    prop = "%s.%s" % (s.src[0].__name__, s.src[2][s.src[3]])
                    bad_i = next((i for i, (a_, b_) in enumerate(zip(got, want)) if a_ != b_), None)
                    self.violate("component-property", e, kinds, "the component array %s%s does not hold the values stored in that component"
                                 % (prop, " (through a mask)" if s.mode == "strided-masked" else ""),
                                 {"property": prop, "L": L, "first_bad_index": bad_i, "stored": repr(s.values[bad_i]) if bad_i is not None else None,
                                  "read": repr(elems(v_)[bad_i]) if bad_i is not None else None}, key="component-property:" + prop)
        ref = run_once(e, specs)
        summ["runs"] += 1
        if ref[0] == "raise":
            summ["raises"] += 1
            if ds == "nice" and 0 < L <= 7 and all(s.mode in ("direct", "scalar") for s in specs):
                self.raise_check(e, specs, kinds, ds, L, ref, summ)
        # two identical unsplit runs must agree (else: uninitialised / out-of-bounds reads, or an RNG)
        ref2 = run_once(e, specs)
        if ref[:3] != ref2[:3] and not self.nan_only(ref, ref2):
            self.violate("nondeterministic", e, kinds, "two identical unsplit runs (no pool) give different results",
                         {"L": L, "dataset": ds, "first": repr(ref[3])[:120] if ref[0] == "ok" else ref[:3],
                          "first_elements_run1": self.head(ref), "first_elements_run2": self.head(ref2),
                          "values": self.describe_values(specs)})
            summ["nondeterministic"] = summ.get("nondeterministic", 0) + 1
            if ref[0] == "ok" and L <= 257:
                self.scalar_check(e, specs, kinds, ds, L, ref, summ)
            return
        # the pool installed but a single range / small lengths: threshold
        plist = partitions(L, rng, o["threaded_reps"], full) if L > 200 else [([(0, L)], False, "single")]
        for rs, thr, label in plist:
            SHIM.script(rs, thr)
            got = run_once(e, specs)
            st = SHIM.take()
            summ["runs"] += 1
            summ["partitions"] += 1
            summ["dispatches"] += st["dispatches"]
            if thr:
                summ["threaded_runs"] += 1
            if label.startswith("tids-") or label.startswith("thr-tids-"):
                summ["tid_reuse_partitions"] = summ.get("tid_reuse_partitions", 0) + 1
            dispatched_at[L] = max(dispatched_at.get(L, 0), st["dispatches"])
            if st["fallbacks"]:
                summ["fallback_lengths"] = summ.get("fallback_lengths", []) + [st["last_length"]]
            self.compare(e, specs, kinds, ds, L, rs, thr, label, ref, got)
        if L > 200 and ref[0] == "ok":
            # caller already is a worker: must run unsplit
            SHIM.script([(0, 1), (1, L)], False)
            SHIM.in_worker(True)
            got = run_once(e, specs)
            st = SHIM.take()
            SHIM.in_worker(False)
            if st["dispatches"]:
                self.violate("threshold", e, kinds, "pool used although inWorkerThread() is true", {"L": L})
            self.compare(e, specs, kinds, ds, L, [(0, L)], False, "in-worker", ref, got)
        SHIM.clear()
        if ref[0] == "ok" and L <= 257 and (ds == "nice" or L <= 7 or full):
            self.scalar_check(e, specs, kinds, ds, L, ref, summ)

    def compare(self, e, specs, kinds, ds, L, rs, thr, label, ref, got):
        if ref[0] != got[0]:
            self.violate("partition", e, kinds, "raises under one partition but not under another",
                         {"L": L, "dataset": ds, "ranges": desc_ranges(rs), "threaded": thr, "partition": label,
                          "unsplit": ref[:3] if ref[0] == "raise" else "ok", "split": got[:3] if got[0] == "raise" else "ok"})
            return
        if ref[0] == "raise":
            if ref[1] != got[1]:
                self.violate("partition", e, kinds, "different exception type under a partition",
                             {"L": L, "dataset": ds, "ranges": desc_ranges(rs), "threaded": thr, "unsplit": ref[1:3], "split": got[1:3]})
            return
        if (ref[1] != got[1] or ref[2] != got[2]) and self.nan_only(ref, got):
            self.nan_only_count += 1
            return
        if ref[1] != got[1] or ref[2] != got[2]:
            where = "result"
            d = first_diff(ref[1], got[1])
            if d is None:
                for k, (a, b) in enumerate(zip(ref[2], got[2])):
                    if a != b:
                        where = "argument %d after the call" % k
                        d = first_diff(a, b)
                        break
            self.violate("partition", e, kinds, "result differs bitwise between the unsplit run and a partition",
                         {"L": L, "dataset": ds, "ranges": desc_ranges(rs), "threaded": thr, "partition": label,
                          "where": where, "first_differing_byte": d,
                          "unsplit_result": repr(ref[3])[:200], "split_result": repr(got[3])[:200],
                          "values": self.describe_values(specs)})

    def head(self, run):
        if run[0] != "ok":
            return run[:3]
        r = run[3]
        try:
            c = classify_obj(r)
            if c and c[0] == "array":
                return [repr(x) for x in list(r)[:4]]
        except Exception:
            pass
        return repr(r)[:200]

    def nan_only(self, a, b):
        """do two runs differ only in NaN sign / payload bits?"""
        global CANON_NAN
        if a[0] != "ok" or b[0] != "ok":
            return False
        CANON_NAN = True
        try:
            def canon(run):
                status, rb, lsn, r, built = run
                out = [snap_obj(r)]
                for x, (o, u) in zip(lsn, built):
                    out.append(None if x is None else snap_obj(u if u is not None else o))
                return out
            return canon(a) == canon(b)
        finally:
            CANON_NAN = False

    def describe_values(self, specs):
        out = []
        for s in specs:
            if s.kind == "scalar":
                out.append(repr(s.values))
            else:
                out.append({"mode": s.mode, "len": len(s.values), "first": [repr(v) for v in s.values[:4]],
                            "mask_idx_first": (s.idx or [])[:6]})
        return out

    # ...................................................................
    def scalar_counterpart(self, e):
        """how the per-element scalar reference is obtained"""
        if e.owner is None:
            return "module"
        if e.ctor:
            return "ctor"
        kind, ti, lv = e.args[0]
        if kind == "scalar":
            return "scalar-self"
        if ti.shape == "prim":
            return "builtin"
        return "element-method"

    def scalar_check(self, e, specs, kinds, ds, L, ref, summ):
        """element by element against the scalar binding.  EXACT (bit-identical, any NaN == any NaN) unless the
        entry point is on the NAMED tolerance list TOLERANCE / the module-float rule (then: 8 ulp-estimates)."""
        if L == 0:
            return
        how = self.scalar_counterpart(e)
        if not str(summ.get("scalar_ref") or "").startswith(how):
            summ["scalar_ref"] = how
        status, rbytes, lsn, result, built = ref
        # element values as stored BEFORE the call: rebuild (the call may have modified lvalues)
        before = [s.build() for s in specs]
        vals = [readback(s, b[0]) for s, b in zip(specs, before)]
        # what to compare: the returned array, or the (first) lvalue array argument
        target, tti = None, None
        c = classify_obj(result) if result is not None else None
        ret_is_self = False
        if c and c[0] == "array" and len(result) == L:
            if specs and specs[0].kind == "array" and specs[0].lv and result is built[0][0]:
                ret_is_self = True
            target, tti = elems(result), c[1]
        elif result is None or isinstance(result, (int, float, bool)) or (c and c[0] == "scalar"):
            if specs and specs[0].kind == "array" and specs[0].lv:
                target, tti, ret_is_self = elems(built[0][0]), specs[0].ti, True
            elif specs and specs[0].kind == "scalar" and specs[0].lv and e.method and any(s.kind == "array" for s in specs[1:]) \
                    and specs[0].ti.shape == "box":
                return self.reduction_check(e, specs, kinds, ds, L, built, vals, summ)
            elif e.name in ("reduce", "min", "max", "bounds", "computeBoundingBox") and len(specs) == 1 and specs[0].kind == "array":
                return self.fold_check(e, specs, kinds, ds, L, result, vals, summ)
            else:
                summ["scalar_ref"] = "none: the call returns no array and modifies none (nothing to compare element-wise)"
                return
        else:
            summ["scalar_ref"] = "none: result of type %s is not an array of a known element type" % type(result).__name__
            return
        tol_reason = tolerance_reason(e, how, specs, tti)
        if tol_reason:
            summ["tolerance_listed"] = tol_reason
        # a masked in-place operation must leave the unselected elements of the underlying array alone
        if specs and specs[0].kind == "array" and specs[0].lv and specs[0].mode == "masked" and built[0][1] is not None:
            after = elems(built[0][1])
            orig = elems(before[0][1])
            sel = set(specs[0].idx)
            ti0 = specs[0].ti
            for j in range(len(orig)):
                if j not in sel and pack(ti0, flat(ti0, after[j])) != pack(ti0, flat(ti0, orig[j])):
                    self.violate("scalar", e, kinds, "a masked in-place operation modified an element that the mask does not select",
                                 {"L": L, "dataset": ds, "raw_index": j, "before": repr(orig[j]), "after": repr(after[j])})
                    break
            summ["unselected_elements_checked"] = summ.get("unselected_elements_checked", 0) + len(orig) - len(sel)
        worst, nchk, nexact, bad, nraise = 0, 0, 0, None, 0
        fn = getattr(imath, e.name) if how == "module" else None
        for i in range(L):
            # copy only what the scalar call may modify (its self); everything else is passed as read
            sargs = [(copy_elem(s.ti, pick(s, v, i)) if (j == 0 and (s.lv or s.kind == "scalar")) else pick(s, v, i))
                     for j, (s, v) in enumerate(zip(specs, vals))]
            try:
                r, spelling = self.scalar_one(e, how, fn, specs, sargs, tti, ret_is_self)
            except NoRef as nr:
                summ["scalar_ref"] = "none: " + str(nr)
                return
            except SkipElement:
                continue
            except Exception as ex:
                # the scalar binding raises for this element and the array call did not (the bindings raise on a zero float
                # divisor and on singular matrices, the vectorised loops do not): compare with the C++ library's NON-throwing
                # result instead of dropping the element
                try:
                    r = self.nonthrowing_reference(e, specs, sargs, tti, ex)
                except Exception:
                    r = None
                if r is None:
                    nraise += 1
                    summ.setdefault("scalar_raise_example", "%s: %s" % (type(ex).__name__, str(ex)[:80]))
                    continue
                summ["scalar_raise_resolved"] = summ.get("scalar_raise_resolved", 0) + 1
                spelling = None
            if how == "ctor" and spelling == "__init__" and len(summ.setdefault("refs_used", [])) < 12:
                try:
                    letter = PRIM_LETTER.get(tti.base, "?")
                    rk = "%s.__init__(%s)" % (tti.pycls().__name__, ",".join(
                        ("b" if isinstance(a, bool) else "Order" if type(a).__name__ == "Order" else letter if isinstance(a, (int, float))
                         else type(a).__name__) for a in sargs))
                    if rk not in summ["refs_used"]:
                        summ["refs_used"].append(rk)
                except Exception:
                    pass
            if how in ("element-method", "scalar-self", "module") and e.name != "ifelse" and len(summ.setdefault("refs_used", [])) < 12:
                try:
                    sp_ = (spelling or (e.name if how != "element-method" else scalar_name(e))).split(" (")[0]
                    if "(" not in sp_ and " " not in sp_ and "." not in sp_:
                        rk = ref_key(getattr(self, "_ref_args", sargs), sp_, module=(how == "module"))
                        if rk not in summ["refs_used"]:
                            summ["refs_used"].append(rk)
                except Exception:
                    pass
            if spelling and spelling != e.name:
                summ["scalar_ref"] = "%s (scalar spelling %s)" % (how, spelling)
            got = target[i]
            try:
                if tti.shape == "prim":
                    rn, gn = [round_to(tti, r)], [got]
                else:
                    if not isinstance(r, type(got)):
                        summ["scalar_ref"] = "none: scalar binding returns %s, array holds %s" % (type(r).__name__, type(got).__name__)
                        return
                    rn, gn = flat(tti, r), flat(tti, got)
            except Exception as ex:
                summ["scalar_ref"] = "none: cannot normalise scalar result (%s)" % str(ex)[:60]
                return
            nchk += 1
            if pack(tti, rn) == pack(tti, gn):
                nexact += 1
                continue
            if canon_pack(tti, rn) == canon_pack(tti, gn):
                nexact += 1
                summ["scalar_nan_bits_only"] = summ.get("scalar_nan_bits_only", 0) + 1
                continue
            if not tol_reason:
                # EXACT is required: any other difference (an ulp, the sign of a zero) is a violation
                worst = max(worst, 10 ** 9)
                if bad is None:
                    bad = (i, [pick(s_, v_, i) for s_, v_ in zip(specs, vals)], r, got, "not bit-identical (entry point is not on the tolerance list)")
                continue
            if tti.isfloat and any(isinstance(x, float) and (x != x or math.isinf(x)) for x in rn + gn):
                # tolerance-listed entry points evaluate another expression / another precision: overflow and
                # invalid operations need not coincide; non-finite results are not compared there
                summ["scalar_nonfinite_skipped"] = summ.get("scalar_nonfinite_skipped", 0) + 1
                nchk -= 1
                continue
            if tti.isfloat and how == "module" and tti.base == "f32" and (
                    any(isinstance(x, float) and (x != x or math.isinf(x)) for x in rn + gn) or
                    any(isinstance(x, float) and (x != x or abs(x) > 1e18 or 0 < abs(x) < 1e-18)
                        for s_, a_ in zip(specs, sargs) if s_.ti.isfloat for x in flat(s_.ti, a_))):
                # python floats select the `double` overload of the module function: overflow / underflow /
                # invalid in single precision (and the overflow guards of lerpfactor etc.) have no counterpart
                # there, so inputs outside [1e-18, 1e18] are not compared with the scalar binding
                summ["scalar_nonfinite_skipped"] = summ.get("scalar_nonfinite_skipped", 0) + 1
                nchk -= 1
                continue
            if tti.isfloat:
                w = 0
                scale = max([abs(x) for x in rn + gn if isinstance(x, float) and x == x and not math.isinf(x)] + [0.0])
                for x, y in zip(rn, gn):
                    if isinstance(x, float) or isinstance(y, float):
                        u = ulps(tti.base, float(x), float(y))
                        if u is None:
                            w = max(w, 10 ** 9)
                        else:
                            # relative to the largest component of the element (sum-of-terms scale)
                            eps = 2.0 ** (-23 if tti.base == "f32" else -52)
                            rel = abs(float(x) - float(y)) / (scale * eps) if scale * eps > 0 and not math.isinf(scale) else u
                            w = max(w, min(u, rel))
                    elif x != y:
                        w = max(w, 10 ** 9)
                allfinite = all((not isinstance(x, float)) or (x == x and not math.isinf(x)) for x in rn + gn)
                if w > self.o["ulp_tol"] and allfinite and (e.owner, e.name) in TOLERANCE and len(sargs) == 2:
                    # inner products in two summation orders: the bound is in units of eps * (sum of the absolute terms)
                    terms = sum(abs(p_ * q_) for p_, q_ in zip(flat(specs[0].ti, sargs[0]), flat(specs[1].ti, sargs[1])))
                    eps = 2.0 ** (-23 if tti.base == "f32" else -52)
                    dif = max(abs(float(x) - float(y)) for x, y in zip(rn, gn))
                    tiny = 2.0 ** (-149 if tti.base == "f32" else -1074)        # products of denormals round to 0 / the smallest denormal
                    if terms == terms and not math.isinf(terms):
                        w = min(w, dif / (terms * eps + 4 * tiny))
                elif w > self.o["ulp_tol"] and allfinite and how in ("module", "scalar-self", "element-method"):
                    # allow a few ulps of the SUM OF ABSOLUTE TERMS, estimated by the sensitivity of
                    # the scalar binding to a one-ulp perturbation of each primitive float input.
                    sens = self.sensitivity(e, how, fn, specs, sargs, tti, rn)
                    if sens is not None:
                        eps = 2.0 ** (-23 if tti.base == "f32" else -52)
                        dif = max(abs(float(x) - float(y)) for x, y in zip(rn, gn))
                        w = min(w, dif / (scale * eps + sens)) if (scale * eps + sens) > 0 else w
                worst = max(worst, w)
                if w == 0:
                    summ["scalar_zero_sign"] = summ.get("scalar_zero_sign", 0) + 1
                if w > self.o["ulp_tol"] and bad is None:
                    bad = (i, [pick(s_, v_, i) for s_, v_ in zip(specs, vals)], r, got, w)
            else:
                worst = max(worst, 10 ** 9)
                if bad is None:
                    bad = (i, [pick(s_, v_, i) for s_, v_ in zip(specs, vals)], r, got, None)
        if nchk == 0 and nraise > 0 and nraise == L:
            summ["scalar_all_raise"] = summ.get("scalar_all_raise", 0) + 1
        summ["scalar_checked"] += nchk
        summ["scalar_exact"] += nexact
        summ["scalar_raised_elements"] = summ.get("scalar_raised_elements", 0) + nraise
        if ds not in summ.setdefault("scalar_datasets", []):
            summ["scalar_datasets"].append(ds)
        summ["scalar_ulp_max"] = max(summ["scalar_ulp_max"], worst if worst < 10 ** 9 else 10 ** 9)
        if bad is not None:
            i, sargs, r, got, w = bad
            self.violate("scalar", e, kinds, "array element differs from the scalar binding" + (" beyond tolerance" if tol_reason else " (bit-exact required)"),
                         {"L": L, "dataset": ds, "index": i, "scalar_args": [repr(a) for a in sargs], "scalar_result": repr(r),
                          "array_element": repr(got), "ulps": w, "how": summ["scalar_ref"], "tolerance_listed": tol_reason,
                          "scalar_result_exact": [x.hex() if isinstance(x, float) else x for x in (flat(tti, r) if tti.shape != "prim" else [round_to(tti, r)])],
                          "array_element_exact": [x.hex() if isinstance(x, float) else x for x in (flat(tti, got) if tti.shape != "prim" else [got])]})

    def nonthrowing_reference(self, e, specs, sargs, tti, ex):
        """reference for an element on which the scalar BINDING raises by design:
        * float vector / 0: the bindings raise RuntimeError('Division by zero'); Vec::operator/ divides component by
          component in IEEE arithmetic (inf / nan);
        * inverse / invert / gjInverse / gjInvert of a singular matrix: the bindings' default is singExc = true; the C++ default
          (and the vectorised loop) is singExc = false, reachable as inverse(False)."""
        msg = str(ex)
        if "Division by zero" in msg and re.match(r"^__(i|r)?(true)?div__$", e.name) and len(sargs) == 2 and tti.isfloat \
                and tti.shape in ("vec", "color"):
            a, b = sargs
            if e.name.startswith("__r"):
                a, b = b, a
            ta, tb = (specs[1].ti, specs[0].ti) if e.name.startswith("__r") else (specs[0].ti, specs[1].ti)
            fa = flat(ta, a) if ta.shape != "prim" else [a] * tti.n
            fb = flat(tb, b) if tb.shape != "prim" else [b] * tti.n
            rnd = f32 if tti.base == "f32" else (lambda x: x)
            return unflat(tti, [rnd(fdiv(x, y)) for x, y in zip(fa, fb)])
        if "singular" in msg.lower() and e.name in ("inverse", "invert", "gjInverse", "gjInvert") and tti.shape == "mat":
            m = copy_elem(specs[0].ti, sargs[0])
            r = getattr(m, e.name)(False)
            return m if (r is None or not isinstance(r, type(m))) else r
        return None

    def scalar_one(self, e, how, fn, specs, sargs, tti, ret_is_self):
        """the scalar binding for one element -> (result, spelling used).  NoRef: no scalar reference exists."""
        self._ref_args = sargs
        if how == "module":
            return fn(*sargs), None
        if how == "ctor":
            if len(sargs) == 1 and specs[0].ti.n == tti.n and specs[0].ti.shape == tti.shape:
                # converting constructor: component-wise C++ conversion (float -> int truncates)
                comps = flat(specs[0].ti, sargs[0])
                if not tti.isfloat:
                    lo_, hi_ = INT_RANGE[tti.base]
                    # out-of-range float -> integer conversion is undefined behaviour in C++: not compared
                    comps = [int(c) if (c == c and not math.isinf(c) and lo_ <= int(c) <= hi_) else None for c in comps]
                    if None in comps:
                        raise SkipElement()
                elif tti.base == "f32":
                    comps = [f32(float(c)) for c in comps]
                else:
                    comps = [float(c) for c in comps]
                if tti.shape == "euler":
                    return tti.pycls()(comps[0], comps[1], comps[2], sargs[0].order()), None
                return unflat(tti, comps), None
            if tti.shape == "prim":
                raise NoRef("constructor of a primitive array from %d arguments" % len(sargs))
            return tti.pycls()(*sargs), "__init__"
        if e.name == "ifelse" and len(sargs) == 3:
            return (sargs[0] if sargs[1] else sargs[2]), None       # choice[i] ? self[i] : other[i]
        if how == "builtin":
            rr = builtin_ref(e.name, specs[0].ti, sargs[0], sargs[1:])
            if rr is None:
                raise NoRef("no C-semantics reference for %s on %s" % (e.name, specs[0].ti.base))
            return rr[0], None
        if how == "scalar-self":
            try:
                return getattr(sargs[0], e.name)(*sargs[1:]), None
            except TypeError:
                # FrustumTestd.isVisible(V3fArray) converts every point to V3d: the scalar spelling is isVisible(V3d(p))
                conv = []
                for s_, a_ in zip(specs[1:], sargs[1:]):
                    if s_.ti.shape == "vec" and s_.ti.base == "f32" and hasattr(imath, "V%dd" % s_.ti.n):
                        conv.append(getattr(imath, "V%dd" % s_.ti.n)(*flat(s_.ti, a_)))
                    else:
                        conv.append(a_)
                return getattr(sargs[0], e.name)(*conv), e.name + " (float points converted to double)"
        if e.name == "setEulerXYZ" and tti.shape == "quat" and len(sargs) == 2:
            # no scalar method of that name: q.setEulerXYZ(v) is Euler<T>(v, XYZ).toQuat()
            sfx = "f" if tti.base == "f32" else "d"
            return getattr(imath, "Euler" + sfx)(sargs[1]).toQuat(), "Euler%s(v).toQuat()" % sfx
        if e.name == "extract" and tti.shape == "quat" and len(sargs) == 2 and specs[1].ti.base != tti.base:
            # QuatfArray.extract(M44dArray): extractQuat at double, converted to the element type
            q = imath.Quatd()
            q.extract(sargs[1])
            comps = flat(TI.get(specs[1].ti.cxx.replace("Matrix44", "Quat")), q)
            return unflat(tti, [f32(c) for c in comps] if tti.base == "f32" else comps), "Quatd.extract + conversion"
        # element-method: the scalar method of the same name, or the spelling python itself falls back to
        name = scalar_name(e)
        tried = []
        cands = [name]
        mm = re.match(r"^__(r|i)(\w+)__$", name)
        if mm and mm.group(2) in ("add", "sub", "mul", "div", "truediv", "mod", "xor", "and", "or", "pow"):
            cands.append("__%s__" % mm.group(2))
        for c_ in list(cands):
            if "truediv" in c_:
                cands.append(c_.replace("truediv", "div"))
            elif "div" in c_:
                cands.append(c_.replace("div", "truediv"))
        first_exc = None
        for cand in cands:
            swap = cand != name and name.startswith("__r")
            a = [sargs[1], sargs[0]] + sargs[2:] if swap and len(sargs) >= 2 else sargs
            f = getattr(a[0], cand, None)
            if f is None:
                tried.append(cand + ": no such method")
                continue
            try:
                r = f(*a[1:])
            except TypeError as ex:            # Boost.Python.ArgumentError
                tried.append(cand + ": " + str(ex).split("\n")[0][:50])
                continue
            except ValueError as ex:
                if "expects an argument" in str(ex) or "invalid parameters" in str(ex):
                    # the scalar binding rejects an argument of its own type (V3s /= V3s): fall back as python would
                    tried.append(cand + ": " + str(ex)[:50])
                    continue
                raise
            if r is NotImplemented:
                tried.append(cand + ": NotImplemented")
                continue
            if r is None or (ret_is_self and not isinstance(r, type(a[0]))):
                r = a[0]
            self._ref_args = a
            return r, cand
        raise NoRef("element type has no usable scalar method (%s)" % "; ".join(tried))

    def raise_check(self, e, specs, kinds, ds, L, ref, summ):
        """the array call raises on moderate, well-formed arguments: does the scalar binding succeed on every element?"""
        how = self.scalar_counterpart(e)
        if how == "ctor":
            return
        built = [s.build() for s in specs]
        vals = [readback(s, b[0]) for s, b in zip(specs, built)]
        fn = getattr(imath, e.name) if how == "module" else None
        tti = None
        ok = 0
        for i in range(L):
            sargs = [copy_elem(s.ti, pick(s, v, i)) for s, v in zip(specs, vals)]
            try:
                if how == "builtin":
                    if builtin_ref(e.name, specs[0].ti, sargs[0], sargs[1:]) is None:
                        return
                elif how == "module":
                    fn(*sargs)
                elif how == "scalar-self":
                    getattr(sargs[0], e.name)(*sargs[1:])
                else:
                    self.scalar_one(e, how, fn, specs, sargs, specs[0].ti, False)
                ok += 1
            except Exception:
                return
        if ok == L:
            summ["array_raises_scalar_ok"] = summ.get("array_raises_scalar_ok", 0) + 1
            self.violate("array-raises", e, kinds, "the array call raises (%s: %s) on moderate arguments for which the scalar binding "
                         "succeeds on every element" % (ref[1], ref[2][:120]),
                         {"L": L, "dataset": ds, "exception": ref[1:3], "values": self.describe_values(specs)},
                         key="array-raises:%s" % e.key)

    def sensitivity(self, e, how, fn, specs, sargs, tti, rn):
        """sum over all float input components of |f(x_j (1+ulp)) - f(x)| (largest output component):
        a first-order estimate of (sum of absolute terms) * ulp"""
        total = 0.0
        try:
            for j, (s, x) in enumerate(zip(specs, sargs)):
                if not s.ti.isfloat or s.ti.shape in ("euler",):
                    continue
                comps = flat(s.ti, x)
                u = 2.0 ** (-23 if s.ti.base == "f32" else -52)
                for c, xc in enumerate(comps):
                    if not isinstance(xc, float) or xc != xc or math.isinf(xc):
                        continue
                    c2 = list(comps)
                    c2[c] = bump(s.ti.base, xc)          # one unit in the last place of the INPUT's precision (denormals too)
                    a2 = [copy_elem(t.ti, y) for t, y in zip(specs, sargs)]
                    a2[j] = unflat(s.ti, c2)
                    r2 = scalar_eval(e, how, a2, tti)
                    if r2 is None and how == "element-method":
                        r2 = a2[0]
                    r2n = [round_to(tti, r2)] if tti.shape == "prim" else flat(tti, r2)
                    d = max(abs(float(p) - float(q)) for p, q in zip(rn, r2n))
                    if d == d and not math.isinf(d):
                        total += d
        except Exception as ex:
            if os.environ.get("C20_DEBUG"):
                traceback.print_exc()
            return None
        return total

    def fold_check(self, e, specs, kinds, ds, L, result, vals, summ):
        """array -> scalar folds (serial loops): reduce = sum in index order starting from zero, min / max component-wise,
        bounds / computeBoundingBox = Box().extendBy(every element), each through the scalar semantics"""
        ti = specs[0].ti
        xs = vals[0]
        try:
            if e.name == "reduce":
                if ti.shape == "prim":
                    acc = 0.0 if ti.isfloat else 0
                    for x in xs:
                        rr = builtin_ref("__add__", ti, acc, [x])
                        acc = rr[0]
                    want, wti = round_to(ti, acc), ti
                else:
                    acc = unflat(ti, [0.0 if ti.isfloat else 0] * ti.n)
                    for x in xs:
                        acc = acc + x
                    want, wti = acc, ti
            elif e.name in ("min", "max"):
                if L == 0:
                    return
                cols = list(zip(*[flat(ti, x) for x in xs]))
                pickf = min if e.name == "min" else max
                if any(isinstance(c, float) and c != c for col in cols for c in col):
                    summ["scalar_ref"] = "fold (NaN inputs: comparison order dependent, not compared)"
                    return
                want, wti = unflat(ti, [pickf(col) for col in cols]), ti
            else:
                c = classify_obj(result)
                if not c or c[1].shape != "box":
                    summ["scalar_ref"] = "none: fold result is not a box"
                    return
                wti = c[1]
                want = wti.pycls()()
                for x in xs:
                    want.extendBy(x)
        except Exception as ex:
            summ["scalar_ref"] = "none: fold reference raises (%s)" % str(ex)[:60]
            return
        summ["scalar_ref"] = "fold of the scalar operation over the elements"
        summ["scalar_checked"] += L
        wn = [want] if wti.shape == "prim" else flat(wti, want)
        gn = [result] if wti.shape == "prim" else flat(wti, result)
        if canon_pack(wti, wn) == canon_pack(wti, gn):
            summ["scalar_exact"] += L
        else:
            self.violate("scalar", e, kinds, "fold over the array differs from folding the scalar operation over its elements",
                         {"L": L, "dataset": ds, "fold_of_scalars": repr(want), "array_call": repr(result), "first_elements": [repr(x) for x in xs[:4]]})

    def reduction_check(self, e, specs, kinds, ds, L, built, vals, summ):
        """scalar self modified by an array argument (Box.extendBy): apply the scalar overload element by element"""
        self_after = built[0][0]
        ti = specs[0].ti
        ref = copy_elem(ti, vals[0])
        try:
            for i in range(L):
                sargs = [copy_elem(s.ti, pick(s, v, i)) for s, v in zip(specs[1:], vals[1:])]
                getattr(ref, e.name)(*sargs)
        except TypeError as ex:
            summ["scalar_ref"] = "none: scalar binding has no such overload"
            return
        except Exception:
            return
        summ["scalar_ref"] = "sequential scalar application"
        summ["scalar_checked"] += L
        if pack(ti, flat(ti, ref)) == pack(ti, flat(ti, self_after)):
            summ["scalar_exact"] += L
        else:
            self.violate("scalar", e, kinds, "reduction over the array differs from applying the scalar overload per element",
                         {"L": L, "dataset": ds, "sequential": repr(ref), "array_call": repr(self_after)})

    # ...................................................................
    def alias_config(self, e, rng, summ):
        """self and an argument are the SAME array object (a += a, a * a)"""
        if not e.method or len(e.args) != 2:
            return
        (k0, t0, lv0), (k1, t1, lv1) = e.args
        if k0 != "array" or k1 != "array" or t0.cxx != t1.cxx:
            return
        L = 257
        spec = make_spec(e, 0, k0, t0, lv0, "direct", L, rng, "nice")
        kinds = "direct,same-object"

        def run():
            a, _ = spec.build()
            if GUARD:
                a2, _ = spec.build()
                sig = forked(lambda: getattr(a2, e.name)(a2))
                if sig is not None:
                    self.out.put({"t": "crash", "key": e.key, "sig": e.sig, "signal": sig, "kinds": kinds, "L": L,
                                  "scalar_signal": None, "note": "self passed as its own argument", "seed": self.o["seed"]})
                    raise CrashFound(sig)
            try:
                r = getattr(a, e.name)(a)
            except Exception as ex:
                return ("raise", type(ex).__name__, str(ex)[:100])
            return ("ok", snap_obj(r), snap_obj(a))
        SHIM.clear()
        ref = run()
        summ["kinds"][kinds] = summ["kinds"].get(kinds, 0) + 1
        for rs, thr, label in partitions(L, rng, 1, False):
            SHIM.script(rs, thr)
            got = run()
            SHIM.take()
            summ["runs"] += 1
            summ["partitions"] += 1
            if got != ref:
                self.violate("partition", e, kinds, "identical-index aliasing: result differs between unsplit and partition",
                             {"L": L, "ranges": desc_ranges(rs), "threaded": thr, "partition": label})
        SHIM.clear()

    # ...................................................................
    def mismatch_lengths(self, e, rng, summ):
        """Every array argument position in turn is made one element SHORTER and one element LONGER than all
        the other array arguments (which have equal lengths): the call must raise, and must not have modified an
        argument before raising.  Result values are never read."""
        apos = [i for i, (k, _, _) in enumerate(e.args) if k == "array"]
        if len(apos) < 2:
            return
        res = {"raised": 0, "calls": 0, "cases": 0}
        for victim in apos:
            for delta, word in ((-1, "shorter"), (1, "longer")):
                res["cases"] += 1
                key = "length-mismatch-not-raised:%s#%d:%s" % (e.key, victim + 1, word)
                for L, modes_all, pools in ((5, "direct", (False,)), (5, "masked", (False,)), (250, "direct", (False, True))):
                    specs = []
                    for pos, (kind, ti, lv) in enumerate(e.args):
                        n = L + (delta if pos == victim else 0)
                        mode = "scalar" if kind == "scalar" else (modes_all if pos in (apos[0], victim) else "direct")
                        specs.append(make_spec(e, pos, kind, ti, lv, mode, n, rng, "nice"))
                    # a masked self accepts an argument of its UNMASKED length: avoid that coincidence
                    if modes_all == "masked":
                        und = [len(s.under) for s in specs if s.under is not None]
                        lens = [len(s.values) for s in specs if s.kind == "array"]
                        if any(u in lens for u in und):
                            continue
                    kinds = kinds_label(specs) + "|arg%d %s" % (victim + 1, word)
                    lens = [len(s.values) if s.kind == "array" else None for s in specs]
                    for pool in pools:
                        if pool:
                            SHIM.script([(0, 100), (100, L + 1)], False)
                        else:
                            SHIM.clear()
                        built = [s.build() for s in specs]
                        pre = [snap_obj(u if u is not None else o) if s.kind == "array" else None
                               for s, (o, u) in zip(specs, built)]
                        res["calls"] += 1
                        if GUARD:
                            b2 = [s.build() for s in specs]
                            sig = forked(lambda: do_call(e, [b[0] for b in b2]))
                            if sig is not None:
                                self.violate("mismatch-crash", e, kinds,
                                             "argument arrays of mismatched length crash the interpreter (signal %d)" % sig,
                                             {"L": L, "lens": lens, "position": victim + 1, "which": word}, key=key)
                                raise CrashFound(sig)
                        try:
                            do_call(e, [b[0] for b in built])
                            raised = False
                        except Exception as ex:
                            raised = True
                        post = [snap_obj(u if u is not None else o) if s.kind == "array" else None
                                for s, (o, u) in zip(specs, built)]
                        SHIM.clear()
                        if raised:
                            res["raised"] += 1
                            if pre != post:
                                self.violate("mismatch-write", e, kinds,
                                             "mismatched lengths raise, but an argument array was modified before the check",
                                             {"L": L, "lens": lens})
                        else:
                            self.violate("mismatch", e, kinds,
                                         "array argument %d is one element %s than the other array arguments and the call does "
                                         "not raise" % (victim + 1, word),
                                         {"L": L, "lens": lens, "position(1-based among the call's arguments, self/first = 1)": victim + 1,
                                          "which": word, "pool_installed": pool}, key=key)
        summ["mismatch_len"] = res


# --------------------------------------------------------------------------- commands

def cmd_list():
    eps, nonvec, total = enumerate_entry_points()
    out = {"overloads_total": total, "non_vectorised": nonvec, "vectorised": len(eps), "arraylike_keys": ARRAYLIKE,
           "cxx2py": CXX2PY,
           "strided_carriers": sorted("%s.%s" % (an, c) for lst_ in STRIDED_PRIM.values() for an, en, comps in lst_ if hasattr(imath, an) for c in comps) +
                               sorted("Box%d%sArray.%s" % (d, sfx, c) for d in (2, 3) for sfx in BOX_SFX.values() for c in ("min", "max")
                                      if hasattr(imath, "Box%d%sArray" % (d, sfx))) +
                               ["Color4fArray2D." + c for c in "rgba"],
           "component_properties": sorted("%s.%s" % (cn, n) for cn in dir(imath) if isinstance(getattr(imath, cn), type) and "Array" in cn
                                          for n, v in getattr(imath, cn).__dict__.items() if isinstance(v, property) and n != "size"),
           "entries": [{"key": e.key, "sig": e.sig, "skip": e.skip, "core": is_core(e), "always": is_always(e),
                        "owner": e.owner, "name": e.name, "k": e.k, "cret": e.cret, "cargs": e.cargs,
                        "n_arrays": sum(1 for k, _, _ in e.args if k == "array")} for e in eps]}
    json.dump(out, sys.stdout)


def cmd_run(optpath, outpath):
    global SHIM
    o = json.load(open(optpath))
    SHIM = Shim(o["shim"])
    eps, nonvec, total = enumerate_entry_points()
    out = Out(outpath)
    ex = Exerciser(o, out)
    byk = {e.key: e for e in eps if not e.skip}
    order = [byk[k] for k in o["keys"] if k in byk] if o.get("keys") is not None else list(byk.values())
    prog = open(o["progress"], "a") if o.get("progress") else None
    t0 = time.time()
    done = 0
    for e in order:
        if prog:
            prog.write("BEGIN %s\n" % e.key)
            prog.flush()
        global GUARD, SAFE
        GUARD = bool(o.get("guard"))
        SAFE = e.key in (o.get("safe_keys") or [])
        try:
            s_ = ex.exercise(e)
            if SAFE and isinstance(s_, dict):
                out.put({"t": "safe-mode", "key": e.key})
        except Exception as exn:
            out.put({"t": "harness-error", "key": e.key, "error": traceback.format_exc()[-1500:]})
        if prog:
            prog.write("END %s\n" % e.key)
            prog.flush()
        done += 1
    # length-mismatch test only (every tier runs it for EVERY entry point with >= 2 array arguments)
    for k in (o.get("mm_keys") or []):
        e = byk.get(k)
        if e is None:
            continue
        if prog:
            prog.write("BEGIN %s\n" % e.key)
            prog.flush()
        GUARD = bool(o.get("guard"))
        SAFE = False
        summ = {"t": "mm", "key": e.key, "mismatch_len": None}
        try:
            ex.mismatch_lengths(e, random.Random("%d:mm:%s" % (o["seed"], e.key)), summ)
        except CrashFound as cf:
            summ["crashed_signal"] = cf.args[0]
        except Exception:
            out.put({"t": "harness-error", "key": e.key, "error": traceback.format_exc()[-1500:]})
        out.put(summ)
        if prog:
            prog.write("END %s\n" % e.key)
            prog.flush()
    SHIM.clear()
    out.put({"t": "stats", "done": done, "strided_sources": sorted(STRIDED_USED), "nan_bits_only_differences": ex.nan_only_count, "dispatches": SHIM.total_dispatches, "ranges": SHIM.total_ranges,
             "fallbacks": SHIM.total_fallbacks, "thread_exceptions": SHIM.total_thread_exc, "wall": round(time.time() - t0, 2)})


# ---- model tie ---------------------------------------------------------------

MODEL_TYPES = [("IntArray", 32, "V3iArray"), ("ShortArray", 16, "V3sArray"), ("SignedCharArray", 8, None)]
MODEL_OPS = [("__add__", "add", False), ("__sub__", "sub", False), ("__mul__", "mul", False), ("__rsub__", "rsub", False),
             ("__iadd__", "add", True), ("__isub__", "sub", True), ("__imul__", "mul", True),
             ("__lt__", "lt", False), ("__ge__", "ge", False), ("__eq__", "eq", False)]      # VectorizedOperation2 with an int result


def acc_tokens(a):
    if a["mode"] == "masked":
        return "m %d %d %d %s" % (a["base"], a["stride"], len(a["idx"]), " ".join(map(str, a["idx"])))
    return "d %d %d" % (a["base"], a["stride"])


def cmd_model(optpath, outpath):
    """real module vs Lean model on integer add/sub/mul/rsub/iadd/isub/imul with direct, strided and masked views"""
    global SHIM
    o = json.load(open(optpath))
    SHIM = Shim(o["shim"])
    rng = random.Random(o["seed"] * 7919 + 13)
    out = Out(outpath)
    cases = []          # (line, expected cells, meta)
    ncase = 0

    def mk_array(cls_name, bits, vcls, mode, L, heap, role_vals):
        """build a real array presented in `mode`; lay its storage out in `heap`. -> (object, accessor, underlying, cells)"""
        lo, hi = -(2 ** (bits - 1)), 2 ** (bits - 1) - 1
        cls = getattr(imath, cls_name)
        base = len(heap)
        if mode == "direct":
            a = cls(L)
            for i in range(L):
                a[i] = role_vals()
            heap.extend(list(a))
            return a, {"mode": "direct", "base": base, "stride": 1}, a, (base, 1, L)
        if mode == "strided":
            V = getattr(imath, vcls)
            v = V(L)
            comp = rng.randrange(3)
            for i in range(L):
                v[i] = type(v[0])(role_vals(), role_vals(), role_vals())
            a = (v.x, v.y, v.z)[comp]
            for p in v:
                heap.extend([p.x, p.y, p.z])
            return a, {"mode": "direct", "base": base + comp, "stride": 3}, v, (base + comp, 3, L)
        n = L + L // 3 + 3
        u = cls(n)
        for i in range(n):
            u[i] = role_vals()
        idx = sorted(rng.sample(range(n), L))
        m = imath.IntArray(n)
        for i in idx:
            m[i] = 1
        heap.extend(list(u))
        return u[m], {"mode": "masked", "base": base, "stride": 1, "idx": idx, "n": n}, u, (base, 1, n)

    def cells_of(obj_under, cellspec, is_v3):
        if is_v3:
            out_ = []
            for p in obj_under:
                out_.extend([p.x, p.y, p.z])
            return out_
        return list(obj_under)

    results = []
    for cls_name, bits, vcls in MODEL_TYPES:
        lo, hi = -(2 ** (bits - 1)), 2 ** (bits - 1) - 1

        def rv():
            return rng.choice((0, 1, -1, lo, hi, rng.randrange(lo, hi + 1), rng.randrange(-9, 10)))
        for pyname, mop, inplace in MODEL_OPS:
            modes = ["direct", "masked"] + (["strided"] if vcls else [])
            for L in o["model_lengths"]:
                for sm in modes:
                    for am in modes + ["scalar"] + (["unmasked-length"] if inplace and sm == "masked" else []) + ["mismatch"]:
                        if L > 200:
                            cs = sorted(rng.randrange(0, L + 1) for _ in range(rng.choice((1, 2, 5))))
                            rs = [(a, b) for a, b in zip([0] + cs, cs + [L])]
                            rng.shuffle(rs)
                        else:
                            rs = [(0, L)]
                        pool_inst = rng.random() < 0.85
                        inworker = pool_inst and rng.random() < 0.15
                        heap = []
                        ret_base = 0
                        if not inplace:
                            heap.extend([0] * L)          # the freshly created result array
                        so, sacc, sunder, scell = mk_array(cls_name, bits, vcls, sm, L, heap, rv)
                        meas = [(L, 1)]
                        if am == "scalar":
                            sc = rv()
                            argtok, ao = "c %d" % sc, sc
                            meas.append((1, 0))
                            argLen = None
                        else:
                            if am == "unmasked-length":
                                aL, amode = sacc["n"], rng.choice(("direct", "masked"))
                            elif am == "mismatch":
                                aL, amode = L + rng.choice((1, 2, 7)), rng.choice(("direct", "masked"))
                                if sm == "masked" and aL == sacc["n"]:
                                    aL += 1
                            else:
                                aL, amode = L, am
                            ao, aacc, aunder, acell = mk_array(cls_name, bits, vcls, amode, aL, heap, rv)
                            argtok = "a " + acc_tokens(aacc)
                            meas.append((aL, 1))
                            argLen = aL
                        H = len(heap)
                        pooltok = "%d %d %d %s" % (1 if pool_inst else 0, 1 if inworker else 0, len(rs),
                                                   " ".join("%d %d %d" % (a, b, t) for t, (a, b) in enumerate(rs)))
                        if inplace and am != "scalar":
                            line = "mask %s %d %d %s %s %d %d %s %d %s" % (
                                mop, bits, H, " ".join(map(str, heap)), acc_tokens(sacc), L,
                                sacc["n"] if sm == "masked" else -1, acc_tokens(aacc), argLen, pooltok)
                        else:
                            ret = acc_tokens(sacc) if inplace else "d 0 1"
                            line = "vec %s %d %d %s %s 2 a %s %s 2 %s %s" % (
                                mop, bits, H, " ".join(map(str, heap)), ret, acc_tokens(sacc), argtok,
                                " ".join("%d %d" % m for m in meas), pooltok)
                        # the real module
                        if pool_inst:
                            SHIM.script(rs, False)
                            SHIM.in_worker(inworker)
                        else:
                            SHIM.clear()
                        try:
                            r = getattr(so, pyname)(ao)
                            raised = False
                        except Exception as ex:
                            raised, r = True, None
                        st = SHIM.take()
                        SHIM.in_worker(False)
                        SHIM.clear()
                        if r is NotImplemented:      # this operator has no overload for an array right-hand side
                            continue
                        real = []
                        if not inplace:
                            real.extend(list(r) if not raised else [0] * L)
                        real.extend(cells_of(sunder, scell, sm == "strided"))
                        if am != "scalar":
                            real.extend(cells_of(aunder, acell, amode == "strided"))
                        cases.append((line, ("raise" if raised else "ok", 1 if st["dispatches"] else 0, real),
                                      {"cls": cls_name, "op": pyname, "L": L, "self": sm, "arg": am, "ranges": rs,
                                       "pool": pool_inst, "inworker": inworker}))
    # ---- VectorizedOperation1 (unary minus) and VectorizedOperation3 (imath.clamp on IntArray, every array/scalar combination)
    for cls_name, bits, vcls in MODEL_TYPES:
        lo, hi = -(2 ** (bits - 1)), 2 ** (bits - 1) - 1

        def rv3():
            return rng.choice((0, 1, -1, lo + 1, hi, rng.randrange(lo + 1, hi + 1), rng.randrange(-9, 10)))
        modes = ["direct", "masked"] + (["strided"] if vcls else [])
        shapes = [("neg", 1)] + ([("clamp", 3)] if cls_name == "IntArray" else [])
        for opname, nargs in shapes:
            for L in o["model_lengths"]:
                for rep in range(len(modes) * (1 if nargs == 1 else 4)):
                    if L > 200:
                        cs = sorted(rng.randrange(0, L + 1) for _ in range(rng.choice((1, 2, 5))))
                        rs = [(a, b) for a, b in zip([0] + cs, cs + [L])]
                        rng.shuffle(rs)
                    else:
                        rs = [(0, L)]
                    pool_inst = rng.random() < 0.85
                    inworker = pool_inst and rng.random() < 0.15
                    heap = [0] * L
                    objs, toks, meas, unders = [], [], [], []
                    kinds_ = []
                    for a_ in range(nargs):
                        if nargs == 3 and rng.random() < 0.35 and (a_ > 0 or rep % 2):
                            sc = rv3()
                            objs.append(sc)
                            toks.append("c %d" % sc)
                            meas.append((1, 0))
                            unders.append(None)
                            kinds_.append("scalar")
                        else:
                            am = modes[rep % len(modes)] if a_ == 0 else rng.choice(modes)
                            mis = nargs == 3 and a_ == 2 and rep % 7 == 6
                            aL = L + (3 if mis else 0)
                            ao, aacc, aunder, acell = mk_array(cls_name, bits, vcls, am, aL, heap, rv3)
                            objs.append(ao)
                            toks.append("a " + acc_tokens(aacc))
                            meas.append((aL, 1))
                            unders.append((aunder, acell, am == "strided"))
                            kinds_.append(am + ("+3" if mis else ""))
                    if all(m[1] == 0 for m in meas):
                        continue
                    H = len(heap)
                    pooltok = "%d %d %d %s" % (1 if pool_inst else 0, 1 if inworker else 0, len(rs),
                                               " ".join("%d %d %d" % (a, b, t) for t, (a, b) in enumerate(rs)))
                    line = "vec %s %d %d %s d 0 1 %d %s %d %s %s" % (opname, bits, H, " ".join(map(str, heap)), nargs, " ".join(toks),
                                                                 nargs, " ".join("%d %d" % m for m in meas), pooltok)
                    if pool_inst:
                        SHIM.script(rs, False)
                        SHIM.in_worker(inworker)
                    else:
                        SHIM.clear()
                    try:
                        r = (-objs[0]) if opname == "neg" else imath.clamp(*objs)
                        raised = False
                    except Exception:
                        raised, r = True, None
                    st = SHIM.take()
                    SHIM.in_worker(False)
                    SHIM.clear()
                    vecLen = max([m[0] for m in meas if m[1]] + [0])
                    real = list(r) if not raised else [0] * L
                    if not raised and len(real) != L:
                        real = real[:L] + [0] * (L - len(real))
                    for u in unders:
                        if u is not None:
                            real.extend(cells_of(u[0], u[1], u[2]))
                    cases.append((line, ("raise" if raised else "ok", 1 if st["dispatches"] else 0, real),
                                  {"cls": cls_name, "op": opname, "L": L, "self": kinds_[0], "arg": ",".join(kinds_[1:]) or "-", "ranges": rs,
                                   "pool": pool_inst, "inworker": inworker}))
    # ---- reductions: Box.extendBy(array) with per-worker partial boxes; worker ids REUSED in the script ----
    box_cases = []        # (lines per coordinate, expected per coordinate, meta)
    for bname, vname, aname, dim in (("Box2i", "V2i", "V2iArray", 2), ("Box3i", "V3i", "V3iArray", 3),
                                     ("Box3s", "V3s", "V3sArray", 3)):
        B, V, A = getattr(imath, bname), getattr(imath, vname), getattr(imath, aname)
        for L in sorted(set(o["model_lengths"] + [257, 640])):
            for variant in range(6):
                pts = [[rng.randrange(-1000, 1001) for _ in range(dim)] for _ in range(L)]
                arr = A(L)
                for i, pnt in enumerate(pts):
                    arr[i] = V(*pnt)
                if variant % 2 == 0:
                    box, btok = B(), ["e"] * dim
                else:
                    lo = [rng.randrange(-50, 0) for _ in range(dim)]
                    hi = [rng.randrange(0, 50) for _ in range(dim)]
                    box, btok = B(V(*lo), V(*hi)), ["b %d %d" % (a, b) for a, b in zip(lo, hi)]
                k = rng.choice((1, 2, 5, 9))
                cs = sorted(rng.randrange(0, L + 1) for _ in range(k - 1))
                w = rng.choice((1, 2, 3)) if variant < 4 else k          # fewer workers than sub-ranges: ids reused
                rs = [(a, b, rng.randrange(w)) for a, b in zip([0] + cs, cs + [L])]
                rng.shuffle(rs)
                pool_inst = rng.random() < 0.9
                inworker = pool_inst and rng.random() < 0.1
                threaded = pool_inst and variant == 3
                pooltok = "%d %d %d %s" % (1 if pool_inst else 0, 1 if inworker else 0, len(rs),
                                           " ".join("%d %d %d" % r for r in rs))
                if pool_inst:
                    SHIM.script(rs, threaded)
                    SHIM.in_worker(inworker)
                else:
                    SHIM.clear()
                box.extendBy(arr)
                st = SHIM.take()
                SHIM.in_worker(False)
                SHIM.clear()
                mn, mx = _attr(box, "min"), _attr(box, "max")
                empty = box.isEmpty()
                reused = len(set(r[2] for r in rs)) < len(rs)
                for c in range(dim):
                    line = "box %d %s %s %s" % (L, " ".join(str(pnt[c]) for pnt in pts), btok[c], pooltok)
                    exp = "e" if empty else "%d %d" % (mn[c], mx[c])
                    box_cases.append((line, exp, {"cls": bname, "L": L, "coordinate": c, "script(start,end,tid)": rs,
                                                  "pool": pool_inst, "inworker": inworker, "threaded": threaded,
                                                  "worker_ids_reused": reused and pool_inst and not inworker and L > 200}))
                # the same case through the GENERATED Box::extendBy(point) / extendBy(box) (Gen/C13Box.lean, `boxn`): all
                # coordinates at once, the empty box being the default-constructed (max, lowest) one
                bits_ = 16 if bname.endswith("s") else 32
                b0 = "e" if variant % 2 == 0 else "b %s %s" % (" ".join(map(str, lo)), " ".join(map(str, hi)))
                line = "boxn %d %d %d %s %s %s" % (dim, bits_, L, " ".join(str(x) for pnt in pts for x in pnt), b0, pooltok)
                exp = " ".join(str(mn[c]) for c in range(dim)) + " " + " ".join(str(mx[c]) for c in range(dim))
                box_cases.append((line, exp, {"cls": bname, "L": L, "coordinate": "all (generated extendBy)", "script(start,end,tid)": rs,
                                              "pool": pool_inst, "inworker": inworker, "threaded": threaded, "generated": True,
                                              "worker_ids_reused": reused and pool_inst and not inworker and L > 200}))
    p = subprocess.run([o["driver"]], input="\n".join([c[0] for c in cases] + [c[0] for c in box_cases]) + "\n",
                       capture_output=True, text=True)
    lines = p.stdout.strip().split("\n")
    bad, nraise, nused = 0, 0, 0
    hits = {}
    box_lines = lines[len(cases):]
    lines = lines[:len(cases)]
    nbox_bad, nreuse = 0, 0
    for (line, exp, meta), got in zip(box_cases, box_lines):
        nreuse += 1 if meta["worker_ids_reused"] else 0
        if got.strip() != exp:
            nbox_bad += 1
            if nbox_bad <= 5:
                out.put({"t": "viol", "kind": "model", "key": "model:%s.extendBy|reduction,coordinate %s" % (meta["cls"], meta["coordinate"]),
                         "what": "Lean model (boxExtendBy) and real Box.extendBy(array) disagree",
                         "replay": dict(meta, driver_line=line[:3000], model=got[:100], real=exp)})
    if len(box_lines) != len(box_cases):
        out.put({"t": "viol", "kind": "model", "key": "model:driver-output-box", "what": "driver produced %d box lines for %d cases" % (len(box_lines), len(box_cases)),
                 "replay": {"stderr": p.stderr[-500:]}})
    if len(lines) != len(cases):
        out.put({"t": "viol", "kind": "model", "key": "model:driver-output", "what": "driver produced %d lines for %d cases" % (len(lines), len(cases)),
                 "replay": {"stderr": p.stderr[-500:], "first": lines[:2]}})
    for (line, (st, used, real), meta), got in zip(cases, lines):
        t = got.split()
        k = "%s/%s" % (meta["self"], meta["arg"])
        hits[k] = hits.get(k, 0) + 1
        nraise += st == "raise"
        nused += used
        ok = len(t) >= 2 and t[0] == st and int(t[1]) == used and [int(x) for x in t[2:]] == [int(x) for x in real]
        if not ok:
            bad += 1
            if bad <= 5:
                out.put({"t": "viol", "kind": "model", "key": "model:%s.%s|%s,%s" % (meta["cls"], meta["op"], meta["self"], meta["arg"]),
                         "what": "Lean model and real module disagree",
                         "replay": dict(meta, driver_line=line[:2000], model=got[:600], real=[st, used] + real[:60])})
    bad += nbox_bad
    ops_hit = {}
    for c_ in cases:
        ops_hit[c_[2]["op"]] = ops_hit.get(c_[2]["op"], 0) + 1
    out.put({"t": "model", "cases": len(cases) + len(box_cases), "reduction_cases": len(box_cases), "cases_per_operator": ops_hit,
             "reduction_cases_through_the_generated_extendBy": sum(1 for b in box_cases if b[2].get("generated")),
             "reduction_cases_with_reused_worker_ids": nreuse, "disagree": bad, "raise_cases": nraise, "pool_used_cases": nused, "hits": hits})


def cmd_drd(optpath):
    """thorough tier, under `valgrind --tool=drd`: every selected entry point once at L = 257 with direct arguments, the
    range cut into 8 sub-ranges each on its own std::thread.  Nothing is compared here: the race detector's log is."""
    global SHIM
    o = json.load(open(optpath))
    SHIM = Shim(o["shim"])
    # no docstring introspection here (minutes under valgrind): the entry points come pre-parsed from `list`
    CXX2PY.update(o["cxx2py"])
    for ct, pn in list(CXX2PY.items()):
        el = arr_elem(ct)
        ti = TI.get(el if el is not None else ct)
        if ti.ok:
            PY2TI[pn] = ("array" if el is not None else "scalar", ti)
    byk = {}
    for d in o["entries"]:
        e = make_ep(d["owner"], d["name"], {"k": d["k"], "sig": d["sig"], "cret": d["cret"], "cargs": [tuple(a) for a in d["cargs"]]})
        if not e.skip:
            byk[e.key] = e
    n = 0
    # positive control first: a deliberately racy Task of the shim, dispatched on 8 threads; the detector must report it
    try:
        SHIM.lib.shim_racy_control.argtypes = [ctypes.c_size_t]
        SHIM.lib.shim_racy_control.restype = ctypes.c_long
        SHIM.script([(i * 32, min(257, (i + 1) * 32 + (1 if i == 7 else 0))) for i in range(8)], True)
        SHIM.lib.shim_racy_control(257)
        st = SHIM.take()
        SHIM.clear()
        print("DRD-CONTROL dispatches=%d" % st["dispatches"], file=sys.stderr, flush=True)
    except Exception as ex:
        print("DRD-CONTROL error=%s" % ex, file=sys.stderr, flush=True)
    for k in o["keys"]:
        e = byk.get(k)
        if e is None:
            continue
        rng = random.Random("%d:drd:%s" % (o["seed"], k))
        L = 257
        try:
            specs = [make_spec(e, pos, kind, ti, lv, "scalar" if kind == "scalar" else "direct", L, rng, "nice")
                     for pos, (kind, ti, lv) in enumerate(e.args)]
            cs = sorted(rng.randrange(1, L) for _ in range(7))
            rs = [(a, b) for a, b in zip([0] + cs, cs + [L])]
            print("DRD-BEGIN %s" % k, file=sys.stderr, flush=True)
            SHIM.script(rs, True)
            run_once(e, specs)
            st = SHIM.take()
            SHIM.clear()
            print("DRD-END %s dispatches=%d" % (k, st["dispatches"]), file=sys.stderr, flush=True)
            n += 1 if st["dispatches"] else 0
        except Exception as ex:
            print("DRD-END %s error=%s" % (k, type(ex).__name__), file=sys.stderr, flush=True)
    print(json.dumps({"drd_dispatching_entry_points": n}))


def cmd_probe(what):
    """guarded hazard probes: run in their own process; the caller looks at the exit status"""
    if what == "int-div-zero":
        a = imath.IntArray(4)
        b = imath.IntArray(4)
        for i in range(4):
            a[i] = 7
        print("calling IntArray([7,7,7,7]) / IntArray([0,0,0,0])", flush=True)
        r = a / b
        print("returned", list(r), flush=True)
    elif what == "cross-alias":
        # OUTSIDE the property's quantifier: two masked views of one buffer, shifted by one
        global SHIM
        SHIM = Shim(sys.argv[3])
        n = 400

        def run(rs):
            a = imath.IntArray(n)
            for i in range(n):
                a[i] = 1
            m1 = imath.IntArray(n)
            m2 = imath.IntArray(n)
            for i in range(1, n):
                m1[i] = 1
                m2[i - 1] = 1
            v1, v2 = a[m1], a[m2]
            if rs:
                SHIM.script(rs, False)
            else:
                SHIM.clear()
            v1 += v2
            SHIM.clear()
            return list(a)
        r0 = run(None)
        r1 = run([(200, n - 1), (0, 200)])
        print(json.dumps({"unsplit_last": r0[-1], "reversed_last": r1[-1], "equal": r0 == r1}))


if __name__ == "__main__":
    cmd = sys.argv[1]
    if cmd == "list":
        cmd_list()
    elif cmd == "run":
        cmd_run(sys.argv[2], sys.argv[3])
    elif cmd == "model":
        cmd_model(sys.argv[2], sys.argv[3])
    elif cmd == "probe":
        cmd_probe(sys.argv[2])
    elif cmd == "drd":
        cmd_drd(sys.argv[2])
