// Scripted WorkerPool for C20, installed through the PUBLIC API
// PyImath::WorkerPool::setCurrentPool.  Compiled by tools/props/c20.py against
// /repo's CURRENT PyImathTask.h and linked against the freshly built libPyImath;
// loaded with ctypes by harness/py/c20_harness.py.  Nothing in /repo is patched.
//
// dispatch(task,length) performs the scripted list of execute(start,end,tid)
// calls in the scripted order.  Every script entry carries an explicit worker
// id; workers() = max tid + 1, so a script may hand several sub-ranges to the
// same worker (as real pools do: more sub-ranges than workers).  Either all
// calls are made on the calling thread, or one std::thread per DISTINCT tid
// executes that worker's sub-ranges in script order (all threads started
// together behind a barrier, joined before returning; a worker id is never
// active on two threads at once).  When the script does not cover
// the dispatched length exactly (sum of range sizes != length, or a range past
// the end) the task is executed unsplit and the event is counted.
#include "PyImathTask.h"
#include <atomic>
#include <condition_variable>
#include <cstddef>
#include <cstdlib>
#include <cstring>
#include <exception>
#include <mutex>
#include <thread>
#include <vector>

namespace {

struct Rng { size_t start, end; int tid; };

thread_local bool t_in_worker = false;

struct ScriptPool : public PyImath::WorkerPool
{
    std::vector<Rng> script;
    bool threaded = false;
    bool report_in_worker = false;     // pretend the caller already is a worker
    // statistics
    std::atomic<long> dispatches{0}, ranges{0}, fallbacks{0}, exceptions{0}, nested{0};
    std::atomic<long> last_length{-1}, min_length{-1};

    size_t workers() const override
    {
        int m = 0;
        for (const Rng& r : script) if (r.tid > m) m = r.tid;
        return (size_t) m + 1;
    }

    bool inWorkerThread() const override { return report_in_worker || t_in_worker; }

    void dispatch(PyImath::Task& task, size_t length) override
    {
        ++dispatches;
        last_length = (long) length;
        if (min_length < 0 || (long) length < min_length) min_length = (long) length;
        size_t total = 0;
        bool ok = !script.empty();
        for (const Rng& r : script)
        {
            if (r.start > r.end || r.end > length) ok = false;
            else total += r.end - r.start;
        }
        if (!ok || total != length)
        {
            ++fallbacks;
            struct Guard { bool old; Guard() : old(t_in_worker) { t_in_worker = true; } ~Guard() { t_in_worker = old; } } g;
            task.execute(0, length, 0);
            return;
        }
        if (!threaded)
        {
            struct Guard { bool old; Guard() : old(t_in_worker) { t_in_worker = true; } ~Guard() { t_in_worker = old; } } g;
            for (size_t k = 0; k < script.size(); ++k)
            {
                ++ranges;
                task.execute(script[k].start, script[k].end, script[k].tid);
            }
            return;
        }
        // threaded: one std::thread per distinct worker id, released together (POOLSHIM_NO_BARRIER set: each thread
        // starts working as soon as it is created -- no condition variable, for the run under valgrind --tool=drd,
        // whose condition-variable bookkeeping aborts on the stack-allocated one below)
        static const bool no_barrier = std::getenv ("POOLSHIM_NO_BARRIER") != nullptr;
        const size_t n = workers();
        std::vector<std::exception_ptr> errs(n);
        std::mutex m;
        std::condition_variable cv;
        size_t ready = 0;
        bool go = false;
        std::vector<std::thread> ts;
        ts.reserve(n);
        for (size_t k = 0; k < n; ++k)
        {
            ts.emplace_back([&, k]() {
                t_in_worker = true;
                if (!no_barrier)
                {
                    std::unique_lock<std::mutex> lk(m);
                    ++ready;
                    cv.notify_all();
                    cv.wait(lk, [&] { return go; });
                }
                try
                {
                    for (const Rng& r : script)
                        if ((size_t) r.tid == k)
                            task.execute(r.start, r.end, r.tid);
                }
                catch (...)
                {
                    errs[k] = std::current_exception();
                }
            });
        }
        if (!no_barrier)
        {
            std::unique_lock<std::mutex> lk(m);
            cv.wait(lk, [&] { return ready == n; });
            go = true;
            cv.notify_all();
        }
        for (auto& t : ts) t.join();
        ranges += (long) script.size();
        for (size_t k = 0; k < n; ++k)
            if (errs[k])
            {
                ++exceptions;
                std::rethrow_exception(errs[k]);
            }
    }
};

ScriptPool g_pool;
bool g_installed = false;

} // namespace

extern "C" {

// install the pool with a script of n ranges; threaded != 0: one thread per range
int shim_set_script(int n, const size_t* starts, const size_t* ends, int threaded)
{
    g_pool.script.clear();
    for (int i = 0; i < n; ++i) g_pool.script.push_back(Rng{starts[i], ends[i], i});
    g_pool.threaded = threaded != 0;
    PyImath::WorkerPool::setCurrentPool(&g_pool);
    g_installed = true;
    return n;
}

// the same with an explicit worker id per script entry (ids may repeat); workers() = max tid + 1
int shim_set_script_tids(int n, const size_t* starts, const size_t* ends, const int* tids, int threaded)
{
    g_pool.script.clear();
    for (int i = 0; i < n; ++i) g_pool.script.push_back(Rng{starts[i], ends[i], tids[i] < 0 ? 0 : tids[i]});
    g_pool.threaded = threaded != 0;
    PyImath::WorkerPool::setCurrentPool(&g_pool);
    g_installed = true;
    return n;
}

// make inWorkerThread() answer true on every thread (dispatchTask must then run unsplit)
void shim_set_in_worker(int flag) { g_pool.report_in_worker = flag != 0; }

// uninstall
void shim_clear()
{
    PyImath::WorkerPool::setCurrentPool(nullptr);
    g_installed = false;
    g_pool.script.clear();
    g_pool.report_in_worker = false;
}

// POSITIVE CONTROL for the race-detector pass: a deliberately racy Task (every sub-range adds into one shared member without
// synchronisation), dispatched through PyImath::dispatchTask like any vectorised operation.  valgrind --tool=drd must
// report a conflicting access inside RacyControl::execute, otherwise the pass proves nothing.
struct RacyControl : public PyImath::Task
{
    volatile long shared = 0;
    void execute(size_t start, size_t end) override
    {
        for (size_t i = start; i < end; ++i) shared = shared + (long) i;
    }
};

long shim_racy_control(size_t length)
{
    RacyControl t;
    PyImath::dispatchTask(t, length);
    return t.shared;
}

int shim_installed() { return PyImath::WorkerPool::currentPool() == &g_pool ? 1 : 0; }

// out[0..6] = dispatches, ranges executed, fallbacks (script did not fit), exceptions in threads,
//             last dispatched length, smallest dispatched length, PyImath::workers()
void shim_stats(long* out)
{
    out[0] = g_pool.dispatches; out[1] = g_pool.ranges; out[2] = g_pool.fallbacks;
    out[3] = g_pool.exceptions; out[4] = g_pool.last_length; out[5] = g_pool.min_length;
    out[6] = (long) PyImath::workers();
}

void shim_reset_stats()
{
    g_pool.dispatches = 0; g_pool.ranges = 0; g_pool.fallbacks = 0; g_pool.exceptions = 0;
    g_pool.last_length = -1; g_pool.min_length = -1;
}

}
