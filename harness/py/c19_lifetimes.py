#!/usr/bin/env python3
"""C19 view lifetimes: one scenario + one release order per process (a genuine use-after-free may crash).

  c19_lifetimes.py list                      -> JSON list of [scenario, order] pairs
  c19_lifetimes.py run <scenario> <order>    -> JSON {"expected": [...], "got": [...]}

A scenario builds an owner and objects derived from it (masked reference, handle copy, element
reference, matrix row, VArray row, size helper, component array, memoryview, string mask);
`order` is a permutation index: objects are released in that order, with gc.collect() and fresh
allocations after every release, and every object still alive is read after each release.
Memory safety itself is OBSERVED here (values natively, invalid accesses under valgrind), not proved."""
import sys, os, json, gc, itertools


def churn(imath):
    """reuse freed memory so that a dangling view is likely to read something else: fresh objects of the sizes the
    scenarios free (8-int arrays, 3x8 matrices of every matrix class, 24- and 48-element arrays, float arrays)"""
    junk = []
    light = bool(os.environ.get("C19_LIGHT_CHURN"))     # under valgrind: an invalid access is reported without any reuse
    for n in ((8,) if light else (8, 3, 6, 12, 24, 48)):
        for _ in range(16 if light else (64 if n == 8 else 24)):
            j = imath.IntArray(n)
            for i in range(n):
                j[i] = -12345
            junk.append(j)
    for mc in (() if light else ("IntMatrix", "FloatMatrix", "DoubleMatrix")):
        for _ in range(24):
            m = getattr(imath, mc)(3, 8)
            for i in range(3):
                m[i] = -12345
            junk.append(m)
    junk2 = [imath.FloatArray(3) for _ in range(8 if light else 64)] + [imath.DoubleArray(24) for _ in range(0 if light else 16)]
    return junk, junk2


def scenarios(imath):
    """name -> builder returning [(label, object, reader)] ; readers return a list of ints"""
    def ints(n, off=100):
        a = imath.IntArray(n)
        for i in range(n):
            a[i] = off + i
        return a

    def s_mask():
        a = ints(8)
        m = imath.IntArray(8)
        for i in (1, 3, 6):
            m[i] = 1
        v = a[m]
        c = imath.IntArray(a)
        vc = imath.IntArray(v)
        rd = lambda o: [o[i] for i in range(len(o))]
        return [("owner", a, rd), ("mask", m, rd), ("masked", v, rd), ("copy", c, rd), ("maskedcopy", vc, rd)]

    def s_elem():
        a = imath.V3fArray(8)
        for i in range(8):
            a[i] = imath.V3f(i, 2 * i, 3 * i)
        e = a[5]
        x = a.x
        rd = lambda o: [int(o[i].x) for i in range(len(o))]
        return [("owner", a, rd), ("elemref", e, lambda o: [int(o.x), int(o.y), int(o.z)]),
                ("component", x, lambda o: [int(o[i]) for i in range(len(o))])]

    def s_matrix(cls="IntMatrix"):
        m = getattr(imath, cls)(3, 8)
        for i in range(3):
            r = m[i]
            for j in range(8):
                r[j] = 100 * i + j
        del r
        row = m[1]
        sub = m[0:2]
        rdm = lambda o: [int(o[i][j]) for i in range(o.rows()) for j in range(o.columns())]
        return [("owner", m, rdm), ("row", row, lambda o: [int(o[j]) for j in range(len(o))]), ("slice", sub, rdm)]

    def s_varray():
        va = imath.VIntArray(3)
        sz = va.size
        for k in range(3):
            sz[k] = 8
        for k in range(3):
            r = va[k]
            for j in range(8):
                r[j] = 100 * k + j
        del r
        row = va[1]
        m = imath.IntArray(3)
        m[2] = 1
        mv = va[m]
        rdv = lambda o: [o[k][j] for k in range(len(o)) for j in range(len(o[k]))]
        return [("owner", va, rdv), ("row", row, lambda o: [o[j] for j in range(len(o))]),
                ("sizehelper", sz, lambda o: [x if isinstance(x, int) else x[0] for x in (o[0], o[1], o[2])]), ("masked", mv, rdv)]

    def s_buffer():
        a = ints(8)
        mv = memoryview(a)
        v3 = imath.V3fArray(4)
        for i in range(4):
            v3[i] = imath.V3f(i, i + 1, i + 2)
        mv3 = memoryview(v3)
        rd = lambda o: [o[i] for i in range(len(o))]
        return [("owner", a, rd), ("memoryview", mv, lambda o: list(o)),
                ("owner3", v3, lambda o: [int(o[i].x) for i in range(len(o))]),
                ("memoryview3", mv3, lambda o: [int(o[i, j]) for i in range(o.shape[0]) for j in range(o.shape[1])])]

    def s_string():
        s = imath.StringArray("a", 6)
        for i in range(6):
            s[i] = "s%d" % (i % 3)
        m = imath.IntArray(6)
        m[1] = 1; m[4] = 1
        sm = s[m]
        sl = s[1:5]
        rd = lambda o: [int(o[i][1:]) for i in range(len(o))]
        return [("owner", s, rd), ("masked", sm, rd), ("slice", sl, rd)]

    def s_2d():
        a = imath.IntArray2D(3, 2)
        for j in range(2):
            for i in range(3):
                a[i, j] = 10 * j + i
        b = a[0:2, 0:2]
        c = imath.IntArray2D(a)
        rd = lambda o: [o.item(i, j) for j in range(o.size()[1]) for i in range(o.size()[0])]
        return [("owner", a, rd), ("slice", b, rd), ("copy", c, rd)]

    return {"mask": s_mask, "elem": s_elem, "matrix": s_matrix, "matrixf": lambda: s_matrix("FloatMatrix"),
            "matrixd": lambda: s_matrix("DoubleMatrix"), "varray": s_varray, "buffer": s_buffer,
            "string": s_string, "array2d": s_2d}


SIZES = {"mask": 5, "elem": 3, "matrix": 3, "matrixf": 3, "matrixd": 3, "varray": 4, "buffer": 4, "string": 3, "array2d": 3}


def main():
    if sys.argv[1] == "list":
        out = []
        for n, k in SIZES.items():
            for oi, _ in enumerate(itertools.permutations(range(k))):
                out.append([n, oi])
        json.dump(out, sys.stdout)
        return
    import imath
    name, oi = sys.argv[2], int(sys.argv[3])
    objs = scenarios(imath)[name]()
    labels = [l for l, _, _ in objs]
    readers = {l: r for l, _, r in objs}
    live = {l: o for l, o, _ in objs}
    del objs
    expected = {l: readers[l](live[l]) for l in labels}
    order = list(itertools.permutations(range(len(labels))))[oi]
    trace = []
    keep = []
    for k in order[:-1]:            # the last one stays alive to the end
        lab = labels[k]
        del live[lab]
        gc.collect()
        keep.append(churn(imath))
        for l in labels:
            if l in live:
                got = readers[l](live[l])
                trace.append({"released": lab, "read": l, "ok": got == expected[l], "got": got, "expected": expected[l]})
    json.dump({"scenario": name, "order": [labels[k] for k in order], "trace": trace}, sys.stdout)


if __name__ == "__main__":
    main()
