"""Program generators for C19 (pure Python, no imath needed).

A *program* is a list of op lines (see lean/Driver/FixedArray.lean); programs are
separated by `reset` when written to a stream.  Every generator yields
(kind, [lines]); `kind` names the family for the evidence counts."""
import itertools, random

try:
    from c19_harness import SpecExec, BadRef, SpecErr
except ImportError:  # imported as a module from tools/
    import os, sys
    sys.path.insert(0, os.path.dirname(os.path.abspath(__file__)))
    from c19_harness import SpecExec, BadRef, SpecErr


def vals(l):
    return ",".join(str(x) for x in l) if l else "-"


def sl(a, b, c):
    f = lambda x: "N" if x is None else str(x)
    return "s:%s:%s:%s" % (f(a), f(b), f(c))


def base_vals(n, off=10):
    return list(range(off, off + n))


def all_slices(rng, steps):
    bounds = [None] + list(range(-rng, rng + 1))
    stp = [None] + [s for s in range(-steps, steps + 1) if s != 0]
    return [(a, b, c) for a in bounds for b in bounds for c in stp]


def exhaustive_1d(maxlen=6, rng=8, steps=3, masklen=5, mrng=4, iadd=True, convert=True, full=True, targets=(), copyproto=False):
    """Small-scope exhaustive families for one element type."""
    slices = all_slices(rng, steps)
    # (a) integer indices
    for n in range(maxlen + 1):
        p = ["alloc " + vals(base_vals(n))]
        p += ["allocfill 7 %d" % n, "len 1", "setscalar 1 i:0 3"]
        p += ["getitem 0 %d" % i for i in range(-rng, rng + 1)]
        p += ["setscalar 0 i:%d 77" % i for i in range(-rng, rng + 1)]
        p += ["len 0"]
        yield "index", p
    # (b) every slice: read, scalar write, vector write with right and wrong lengths
    for n in range(maxlen + 1):
        bv = base_vals(n)
        for (a, b, c) in slices:
            k = len(range(n)[slice(a, b, c)])
            s = sl(a, b, c)
            p = ["alloc " + vals(bv), "getslice 0 " + s, "setscalar 0 %s 99" % s,
                 "alloc " + vals(base_vals(k, 50)), "setvector 0 %s 2" % s,
                 "alloc " + vals(base_vals(k + 1, 70)), "setvector 0 %s 3" % s]
            if k > 0:
                p += ["alloc " + vals(base_vals(k - 1, 80)), "setvector 0 %s 4" % s]
            yield "slice", p
    yield "slice", ["alloc 1,2,3", "getslice 0 s:N:N:0", "setscalar 0 s:0:2:0 5"]
    # (c) every 0/1 mask
    for n in range(masklen + 1):
        bv = base_vals(n)
        for bits in itertools.product((0, 1), repeat=n):
            cnt = sum(bits)
            p = ["alloc " + vals(bv), "alloci " + vals(bits), "getmask 0 1"]
            p += ["getitem 2 %d" % i for i in range(-n - 1, n + 1)]
            p += ["len 2", "setscalarmask 0 1 77",
                  "alloc " + vals(base_vals(n, 30)), "setvectormask 0 1 3",
                  "alloc " + vals(base_vals(cnt, 40)), "setvectormask 0 1 4",
                  "alloc " + vals(base_vals(n + cnt + 1, 60)), "setvectormask 0 1 5",
                  "ifelses 0 1 5", "ifelsev 0 1 3", "ifelsev 0 1 5",
                  "setscalar 2 s:N:N:N 8", "setvector 2 s:N:N:N 4", "setvector 2 s:N:N:-1 4",
                  "getslice 2 s:N:N:-1", "getslice 2 s:1:N:2",
                  "getmask 2 1", "setvectormask 2 1 4", "copy 2", "len 0"]
            if iadd:
                p += ["iadds 2 3", "iaddv 2 4", "iaddv 2 3", "iaddv 2 5", "iadds 0 1", "iaddv 0 3", "iaddv 0 4"]
            yield "mask", p
            # wrong mask lengths, non-0/1 mask values
            p = ["alloc " + vals(bv), "alloci " + vals(list(bits) + [1]), "getmask 0 1", "setscalarmask 0 1 5",
                 "setvectormask 0 1 0", "ifelses 0 1 2", "ifelsev 0 1 0", "alloci " + vals([b * (-3) for b in bits]),
                 "getmask 0 2", "setscalarmask 0 2 6"]
            if n > 0:
                p += ["alloci " + vals(bits[:-1]), "getmask 0 4", "setscalarmask 0 4 5"]
            yield "mask-mismatch", p
    # (d) slices of masked references
    mslices = all_slices(mrng, 2 if not full else steps)
    for n in range(min(masklen, 4) + 1):
        bv = base_vals(n)
        for bits in itertools.product((0, 1), repeat=n):
            cnt = sum(bits)
            for (a, b, c) in mslices:
                k = len(range(cnt)[slice(a, b, c)])
                s = sl(a, b, c)
                yield "masked-slice", ["alloc " + vals(bv), "alloci " + vals(bits), "getmask 0 1", "getslice 2 " + s,
                                       "setscalar 2 %s 9" % s, "alloc " + vals(base_vals(k, 50)), "setvector 2 %s 4" % s]
    # (e) masks applied to masked references (setitem_scalar_mask / in-place with the unmasked length)
    for n in range(min(masklen, 4) + 1):
        bv = base_vals(n)
        for bits in itertools.product((0, 1), repeat=n):
            cnt = sum(bits)
            for bits2 in itertools.product((0, 1), repeat=cnt):
                yield "mask-on-masked", ["alloc " + vals(bv), "alloci " + vals(bits), "getmask 0 1",
                                         "alloci " + vals(bits2), "setscalarmask 2 3 7", "setscalarmask 2 1 8"]
    # (f) read-only protection: every mutating operation through the array, a masked reference, a handle copy,
    #     a masked reference of the copy and a copy of the masked reference — one program per attempt
    for n in range(min(masklen, 4) + 1):
        bv = base_vals(n)
        for bits in itertools.product((0, 1), repeat=n):
            cnt = sum(bits)
            setup = ["alloc " + vals(bv), "alloci " + vals(bits), "alloc " + vals(base_vals(n, 30)),
                     "alloc " + vals(base_vals(cnt, 40)), "ro 0", "getmask 0 1", "copy 0", "getslice 0 s:N:N:N",
                     "getmask 5 1", "copy 4", "alloci " + vals([1] * cnt)]
            # views: 0 base(ro) 1 mask 2 data(n) 3 data(cnt) 4 masked ref 5 handle copy 6 slice copy (writable)
            #        7 masked ref of the copy 8 copy of the masked ref 9 all-ones choice of the masked length
            for v in (0, 4, 5, 7, 8):
                muts = ["setscalar %d i:0 1" % v, "setscalar %d s:N:N:N 1" % v, "setscalarmask %d 1 1" % v,
                        "setvector %d s:N:N:N 2" % v, "setvector %d s:N:N:N 3" % v, "setvectormask %d 1 2" % v,
                        "setvectormask %d 1 3" % v]
                if iadd:
                    muts += ["iadds %d 5" % v, "iaddv %d 2" % v, "iaddv %d 3" % v]
                for mline in muts:
                    yield "readonly", setup + [mline, "getitem 0 0"]
            yield "readonly", setup + ["setscalar 6 s:N:N:N 1", "len 6"]
            yield "readonly-read", setup + ["ifelses 0 1 9"]
            yield "readonly-read", setup + ["ifelsev 0 1 2"]
            yield "readonly-read", setup + ["ifelses 4 9 9"]
            yield "readonly-read", setup + ["getslice 0 s:N:N:-1", "getitem 4 0", "getitem 0 -1"]
    # (g) converting constructor
    if convert:
        for n in range(masklen + 1):
            bv = base_vals(n)
            yield "convert", ["alloc " + vals(bv), "convert 0", "len 1"] + ["getitem 1 %d" % i for i in range(-n - 1, n + 1)]
            for bits in itertools.product((0, 1), repeat=n):
                p = ["alloc " + vals(bv), "alloci " + vals(bits), "getmask 0 1", "convert 2", "len 3"]
                p += ["getitem 3 %d" % i for i in range(sum(bits))]
                yield "convert-masked", p


    # (h) EVERY converting constructor (one program per target class), dense and masked sources
    for T in targets:
        for n in range(min(masklen, 3) + 1):
            bv = base_vals(n)
            yield "convert-target", ["alloc " + vals(bv), "convert 0 " + T, "len 1"] + ["getitem 1 %d" % i for i in range(-n - 1, n + 1)] + \
                ["alloci " + vals([1, 0, 1][:n]), "getmask 0 2", "convert 3 " + T, "len 4", "ro 0", "convert 0 " + T, "setscalar 5 s:N:N:N 3"]
    # (i) `copy.copy(a)` / `copy.deepcopy(a)`: `decoratecopy` wraps the COPY CONSTRUCTOR for both, so each is another handle
    #     on the same storage (also the "deep" one), with the mask and the read-only flag of its source
    if copyproto:
        for n in range(min(masklen, 3) + 1):
            bv = base_vals(n)
            for bits in itertools.product((0, 1), repeat=n):
                p = ["alloc " + vals(bv), "alloci " + vals(bits), "getmask 0 1", "copyc 0", "copyd 0", "copyc 2", "copyd 2",
                     "len 3", "len 4", "len 5", "len 6", "setscalar 3 s:N:N:N 5", "setscalar 4 s:N:N:2 6", "setscalar 5 s:N:N:N 7",
                     "setscalar 6 s:N:N:-1 8", "ro 0", "copyc 0", "copyd 0", "setscalar 7 s:N:N:N 1", "setscalar 8 s:N:N:N 1",
                     "setscalar 4 s:N:N:N 2", "getmask 8 1", "setscalar 9 s:N:N:N 3", "len 0"]
                yield "copy-protocol", p


# ----------------------------------------------------------------------------------------------
# component arrays of vector arrays (`.x .y .z .w`, `.r .g .b .a`, quaternion `.r .x .y .z`, box `.min .max`)

def wide_cells(n, w, off=10):
    """element i has components off+i, off+i+20, off+i+40, ... (distinct, small)"""
    return [off + i + 20 * k for i in range(n) for k in range(w)]


def exhaustive_comp(w, maxlen=4, iadd=True, full=True, elemset=False, settuple=False, setlist=False):
    """every component k < w of: the dense array, EVERY masked reference of it (all 0/1 masks), a handle copy;
    reads with every int index, writes (int, slice, mask, vector, in-place) THROUGH the component array — the
    storage dump shows where they land — and read-only propagation (array made read-only before / after)."""
    for n in range(maxlen + 1):
        cells = wide_cells(n, w)
        for k in range(w):
            p = ["allocw %d %s" % (w, vals(cells)), "comp 0 %d" % k, "len 1"]
            p += ["getitem 1 %d" % i for i in range(-n - 1, n + 1)]
            p += ["setscalar 1 i:%d 7" % i for i in range(n)]
            p += ["setscalar 1 s:N:N:2 5", "getslice 1 s:N:N:-1", "copy 0", "comp 3 %d" % k, "setscalar 4 s:N:N:N 3", "getitem 0 0"]
            if iadd:
                p += ["iadds 1 2", "allocc " + vals(base_vals(n, 1)), "iaddv 1 5"]
            yield "comp-dense", p
            if elemset:
                # writes THROUGH an element reference `a[i].x = v` (writable: lands in a[i]; read-only: the element is a copy)
                q = ["allocw %d %s" % (w, vals(cells))] + ["elemset 0 %d %d %d" % (i, k, 90 + i) for i in range(-n - 1, n + 1)]
                q += ["comp 0 %d" % k, "ro 0"] + ["elemset 0 %d %d 5" % (i, k) for i in range(n)] + ["len 1"]
                yield "comp-elemref", q
        for bits in itertools.product((0, 1), repeat=n):
            cnt = sum(bits)
            if elemset and cnt:
                yield "comp-elemref", ["allocw %d %s" % (w, vals(cells)), "alloci " + vals(bits), "getmask 0 1"] + \
                    ["elemset 2 %d %d %d" % (i, w - 1, 80 + i) for i in range(-cnt - 1, cnt + 1)] + ["comp 0 %d" % (w - 1)]
            for k in (range(w) if full or cnt in (1, 2) else (w - 1,)):
                # views: 0 wide 1 mask 2 masked reference 3 its component array 4 data(cnt)
                p = ["allocw %d %s" % (w, vals(cells)), "alloci " + vals(bits), "getmask 0 1", "comp 2 %d" % k, "len 3"]
                p += ["getitem 3 %d" % i for i in range(-cnt - 1, cnt + 1)]
                p += ["allocc " + vals(base_vals(cnt, 60)), "setvector 3 s:N:N:N 4"]
                p += ["setscalar 3 i:%d %d" % (i, 70 + i) for i in range(cnt)]
                p += ["setscalar 3 s:N:N:-1 8", "getslice 3 s:N:N:N", "comp 0 %d" % k, "getitem 6 0", "copy 3", "len 7"]
                if iadd:
                    # right-hand sides of the masked AND of the unmasked length (the masked kernel reads b[raw_ptr_index(i)])
                    p += ["iadds 3 1", "iaddv 3 4", "allocc " + vals(base_vals(n, 1)), "iaddv 3 8"]
                p += ["alloci " + vals([1] * n), "setscalarmask 3 %d 6" % (9 if iadd else 8)]
                p += ["getitem 0 %d" % i for i in range(n)]
                yield "comp-masked", p
                # read-only: the component array of a read-only array / masked reference must refuse every write
                ro = ["allocw %d %s" % (w, vals(cells)), "alloci " + vals(bits), "ro 0", "getmask 0 1", "comp 0 %d" % k,
                      "comp 2 %d" % k, "allocc " + vals(base_vals(cnt, 60)), "allocc " + vals(base_vals(n, 60))]
                # views: 3 comp of the read-only array, 4 comp of its masked reference, 5 data(cnt), 6 data(n)
                for mline in ["setscalar 3 i:0 1", "setscalar 3 s:N:N:N 1", "setvector 3 s:N:N:N 6", "setscalarmask 3 1 1",
                              "setscalar 4 i:0 1", "setscalar 4 s:N:N:N 1", "setvector 4 s:N:N:N 5"] + \
                             (["iadds 3 1", "iaddv 3 6", "iadds 4 1", "iaddv 4 5"] if iadd else []):
                    if full or k == w - 1:
                        yield "comp-readonly", ro + [mline, "getitem 0 0"]
        # class-specific `__setitem__(int, tuple)` (`setItemTuple`; V2 also takes a list): every int index of any sign through the
        # dense array, every masked reference, a read-only array; wrong tuple lengths
        for form in (["settuple"] if settuple else []) + (["setlist"] if setlist else []):
            tv = lambda x: vals([x + 20 * k for k in range(w)])
            p = ["allocw %d %s" % (w, vals(cells))] + ["%s 0 i:%d %s" % (form, i, tv(70 + i)) for i in range(-n - 1, n + 1)]
            p += ["%s 0 i:0 %s" % (form, vals([1] * (w + 1))), "%s 0 i:0 %s" % (form, vals([1] * (w - 1))), "comp 0 %d" % (w - 1), "getitem 0 0"]
            yield "comp-tuple", p
            for bits in itertools.product((0, 1), repeat=n):
                cnt = sum(bits)
                yield "comp-tuple", ["allocw %d %s" % (w, vals(cells)), "alloci " + vals(bits), "getmask 0 1"] + \
                    ["%s 2 i:%d %s" % (form, i, tv(80 + i)) for i in range(-cnt - 1, cnt + 1)] + \
                    ["comp 0 0", "ro 0", "%s 0 i:0 %s" % (form, tv(5)), "%s 2 i:0 %s" % (form, tv(5)), "getmask 0 1", "%s 4 i:0 %s" % (form, tv(6)),
                     "%s 0 i:%d %s" % (form, n, tv(5)), "getitem 0 0"]
        # a component array taken BEFORE makeReadOnly stays writable (documented aliasing, like any earlier view)
        if n:
            yield "comp-alias", ["allocw %d %s" % (w, vals(cells)), "comp 0 0", "ro 0", "setscalar 1 i:0 9", "getitem 0 0", "comp 0 0",
                                 "setscalar 2 i:0 4"]


# ----------------------------------------------------------------------------------------------
# random op sequences

MUT = ("setscalar", "setscalarmask", "setvector", "setvectormask", "iadds", "iaddv")


def random_program(rng, nops=20, iadd=True, convert=True, typed=False, quirks=("slice", "ifelse")):
    """One random program.  A SpecExec shadow is used only to pick plausible arguments (right lengths most
    of the time); the program stays well-formed even when the shadow is wrong about the real code."""
    sp = SpecExec(quirks=set(quirks))
    lines = []
    ints, foreign = set(), set()       # ids of IntArrays (alloci) / of views of another class (convert and derived)

    def emit(l):
        lines.append(l)
        n0 = len(sp.objs)
        try:
            sp.run(l.split())
        except (BadRef, SpecErr, Exception):
            pass
        if len(sp.objs) > n0:
            t = l.split()
            if t[0] == "alloci":
                ints.add(n0)
            elif t[0] == "convert" or (t[0] in ("getslice", "getmask", "copy", "ifelses", "ifelsev") and int(t[1]) in foreign):
                foreign.add(n0)
            elif t[0] in ("getslice", "getmask", "copy", "ifelses", "ifelsev") and int(t[1]) in ints:
                ints.add(n0)

    def rint(lo, hi):
        return rng.randint(lo, hi)

    def pick(pred=None, kind="elem"):
        """kind: elem = arrays of the class under test; int = usable as mask/choice; any = anything (reads only)"""
        def okk(i):
            if kind == "any":
                return True
            if i in foreign:          # an array of another class (converting constructor): reads only
                return False
            if not typed:
                return True
            if kind == "int":
                return i in ints
            return i not in ints
        c = [i for i, o in enumerate(sp.objs) if okk(i) and (pred is None or pred(o))]
        return rng.choice(c) if c else None

    def rslice():
        f = lambda: None if rng.random() < 0.3 else rint(-8, 8)
        st = None if rng.random() < 0.3 else rng.choice([-3, -2, -1, 1, 2, 3])
        return sl(f(), f(), st)

    def ridx(n):
        if rng.random() < 0.4:
            return "i:%d" % rint(-n - 1, n)
        return rslice()

    def new_of_len(n, kind="alloc", lo=0, hi=9):
        emit("%s %s" % (kind, vals([rint(lo, hi) for _ in range(n)])))
        return len(sp.objs) - 1

    n0 = rint(0, 6)
    emit("alloc " + vals(base_vals(n0)))
    while len(lines) < nops:
        v = pick()
        if v is None:
            v = 0
        o = sp.objs[v]
        n = len(o)
        r = rng.random()
        ops = ["getitem", "getslice", "getmask", "copy", "setscalar", "setscalarmask", "setvector", "setvectormask",
               "ifelses", "ifelsev", "ro", "alloc", "len"]
        wts = [2, 3, 4, 2, 3, 3, 3, 3, 1, 1, 1, 1, 1]
        if iadd:
            ops += ["iadds", "iaddv"]; wts += [4, 4]
        if convert:
            ops += ["convert"]; wts += [1]
        op = rng.choices(ops, wts)[0]
        right = rng.random() < 0.8
        if op == "getitem":
            va = pick(None, "any")
            emit("getitem %d %d" % (va, rint(-len(sp.objs[va]) - 1, len(sp.objs[va]))))
        elif op == "len":
            emit("len %d" % pick(None, "any"))
        elif op == "getslice":
            emit("getslice %d %s" % (v, rslice()))
        elif op in ("getmask", "setscalarmask", "ifelses"):
            ln = n if right else (o.ulen if (o.sel is not None and rng.random() < 0.6) else max(0, n + rng.choice([-1, 1])))
            m = pick(lambda x: len(x) == ln and all(b in (0, 1) for b in x.tolist()), "int") if rng.random() < 0.3 else None
            if m is None:
                m = new_of_len(ln, "alloci", 0, 1)
            if op == "getmask":
                emit("getmask %d %d" % (v, m))
            elif op == "setscalarmask":
                emit("setscalarmask %d %d %d" % (v, m, rint(0, 9)))
            else:
                emit("ifelses %d %d %d" % (v, m, rint(0, 9)))
        elif op == "copy":
            emit("copy %d" % v)
        elif op == "convert":
            emit("convert %d" % v)
        elif op == "setscalar":
            emit("setscalar %d %s %d" % (v, ridx(n), rint(0, 9)))
        elif op == "setvector":
            idx = ridx(n)
            try:
                k = len(sp.sel_of(o, __import__("c19_harness").p_idx(idx)))
            except Exception:
                k = 1
            ln = k if right else max(0, k + rng.choice([-1, 1]))
            d = pick(lambda x: len(x) == ln) if rng.random() < 0.5 else None
            if d is None:
                d = new_of_len(ln)
            emit("setvector %d %s %d" % (v, idx, d))
        elif op in ("setvectormask", "ifelsev"):
            m = new_of_len(n if right else max(0, n + rng.choice([-1, 1])), "alloci", 0, 1)
            cnt = sum(1 for b in sp.objs[m].tolist() if b)
            ln = rng.choice([n, cnt]) if right else n + cnt + 1
            d = pick(lambda x: len(x) == ln) if rng.random() < 0.5 else None
            if d is None:
                d = new_of_len(ln)
            emit("%s %d %d %d" % (op, v, m, d))
        elif op == "ro":
            emit("ro %d" % v)
        elif op == "alloc":
            new_of_len(rint(0, 6))
        elif op == "iadds":
            emit("iadds %d %d" % (v, rint(1, 3)))
        elif op == "iaddv":
            ln = n if right else (o.ulen if (o.sel is not None and rng.random() < 0.7) else max(0, n + rng.choice([-1, 1])))
            d = pick(lambda x: len(x) == ln) if rng.random() < 0.6 else None
            if d is None:
                d = new_of_len(ln, "alloc", 0, 3)
            emit("iaddv %d %d" % (v, d))
    return lines


def random_programs(seed, count, nops=20, iadd=True, convert=True, typed=False, quirks=("slice", "ifelse")):
    rng = random.Random(seed)
    for _ in range(count):
        yield "random", random_program(rng, rng.randint(6, nops), iadd, convert, typed, quirks)


def boolify(programs):
    """element values restricted to 0/1 (BoolArray)"""
    def fix_vals(v):
        return v if v == "-" else ",".join(str(int(x) % 2) for x in v.split(","))
    for kind, p in programs:
        out = []
        for l in p:
            t = l.split()
            if t[0] == "alloc":
                t[1] = fix_vals(t[1])
            elif t[0] in ("setscalar", "setscalarmask", "ifelses"):
                t[3] = str(int(t[3]) % 2)
            elif t[0] == "allocfill":
                t[1] = str(int(t[1]) % 2)
            out.append(" ".join(t))
        yield kind, out


# ----------------------------------------------------------------------------------------------
# FixedArray2D / FixedMatrix (IntArray2D, IntMatrix)

def exhaustive_2d(rng=4, targets=(), settuple=False):
    bounds = [None] + list(range(-rng, rng + 1))
    stp = [None, 1, 2, 3, -1, -2]
    sls = [(a, b, c) for a in bounds for b in bounds for c in stp]
    shapes = [(0, 0), (1, 1), (2, 3), (3, 2), (1, 3), (3, 1)]
    for (lx, ly) in shapes:
        bv = base_vals(lx * ly)
        p = ["d2 alloc %d %d %s" % (lx, ly, vals(bv))]
        p += ["d2 item 0 %d %d" % (i, j) for i in range(-lx - 1, lx + 1) for j in range(-ly - 1, ly + 1)]
        yield "2d-index", p
        # every slice on x with a fixed slice on y and vice versa; int index per dimension
        for (a, b, c) in sls:
            s = sl(a, b, c)
            kx = len(range(lx)[slice(a, b, c)]); ky = len(range(ly)[slice(a, b, c)])
            for (ix, iy, wx, wy) in ((s, "s:N:N:N", kx, ly), ("s:N:N:N", s, lx, ky), (s, s, kx, ky),
                                     (s, "i:0", kx, 1), ("i:-1", s, 1, ky)):
                p = ["d2 alloc %d %d %s" % (lx, ly, vals(bv)), "d2 getslice 0 %s %s" % (ix, iy),
                     "d2 setscalar 0 %s %s 99" % (ix, iy),
                     "d2 alloc %d %d %s" % (wx, wy, vals(base_vals(wx * wy, 50))), "d2 setvector 0 %s %s 2" % (ix, iy),
                     "alloc " + vals(base_vals(wx * wy, 70)), "d2 set1d 0 %s %s 0" % (ix, iy),
                     "d2 alloc %d %d %s" % (wx + 1, wy, vals(base_vals((wx + 1) * wy, 50))),
                     "d2 setvector 0 %s %s 3" % (ix, iy)]
                yield "2d-slice", p
    for (lx, ly) in shapes:
        bv = base_vals(lx * ly)
        # the converting constructors (`FloatArray2D(IntArray2D)` ...): a fresh copy with the SAME (lenX, lenY)
        for T in targets:
            yield "2d-convert", ["d2 alloc %d %d %s" % (lx, ly, vals(bv)), "d2 convert 0 " + T, "d2 len 1"] + \
                ["d2 item 1 %d %d" % (i, j) for i in range(lx) for j in range(ly)] + ["d2 setscalar 1 s:N:N:N s:N:N:N 3", "d2 item 0 0 0"]
        # `c[(i, j)] = (r, g, b, a)` of the 2-D colour arrays: every int pair of any sign, wrong tuple lengths
        if settuple:
            p = ["d2 alloc %d %d %s" % (lx, ly, vals(bv))]
            p += ["d2 settuple 0 %d %d %d 4" % (i, j, 60 + (i + 5) + 10 * (j + 5)) for i in range(-lx - 1, lx + 1) for j in range(-ly - 1, ly + 1)]
            p += ["d2 settuple 0 0 0 9 3", "d2 settuple 0 0 0 9 5", "d2 len 0",
                  # `copy.copy` / `copy.deepcopy` of a 2-D colour array: both are the copy constructor (shared storage)
                  "d2 copyc 0", "d2 copyd 0", "d2 setscalar 1 s:N:N:N s:N:N:N 3", "d2 setscalar 2 s:0:1:N s:N:N:N 4", "d2 len 2"]
            yield "2d-tuple", p
    for (lx, ly) in [(1, 1), (2, 2), (3, 1), (2, 3)]:
        bv = base_vals(lx * ly)
        for bits in itertools.product((0, 1), repeat=lx * ly):
            cnt = sum(bits)
            yield "2d-mask", ["d2 alloc %d %d %s" % (lx, ly, vals(bv)), "d2 alloci %d %d %s" % (lx, ly, vals(bits)),
                              "d2 getmask 0 1", "d2 setscalarmask 0 1 77",
                              "d2 alloc %d %d %s" % (lx, ly, vals(base_vals(lx * ly, 40))), "d2 setvectormask 0 1 3",
                              "d2 alloc %d %d %s" % (lx + 1, ly, vals(base_vals((lx + 1) * ly, 40))),
                              "d2 setvectormask 0 1 4", "d2 alloci %d %d %s" % (lx + 1, ly, vals([1] * ((lx + 1) * ly))), "d2 getmask 0 5",
                              # 1-D right-hand sides through a mask: full length, packed, wrong; ifelse; len; constructors
                              "alloc " + vals(base_vals(lx * ly, 20)), "d2 set1dmask 0 1 0",
                              "alloc " + vals(base_vals(cnt, 30)), "d2 set1dmask 0 1 1",
                              "alloc " + vals(base_vals(lx * ly + cnt + 1, 30)), "d2 set1dmask 0 1 2", "d2 set1dmask 0 5 0",
                              "d2 ifelses 0 1 5", "d2 ifelsev 0 1 3", "d2 ifelsev 0 1 4", "d2 ifelses 0 5 5", "d2 len 0",
                              "d2 fill 9 %d %d" % (lx, ly), "d2 copy 0", "d2 setscalar 9 s:N:N:N s:N:N:N 3", "d2 len 8", "d2 item 0 0 0"]


def exhaustive_matrix(rng=4):
    bounds = [None] + list(range(-rng, rng + 1))
    stp = [None, 1, 2, 3, -1, -2, -3]
    sls = [(a, b, c) for a in bounds for b in bounds for c in stp]
    for (r, c) in [(0, 2), (1, 1), (2, 3), (3, 2), (4, 1)]:
        bv = base_vals(r * c)
        p = ["m alloc %d %d %s" % (r, c, vals(bv)), "m len 0"]
        for i in range(-r - 1, r + 1):
            p += ["m row 0 %d" % i]
        # write through the row views
        p += ["setscalar %d i:0 5" % k for k in range(r)]
        yield "matrix-row", p
        for (a, b, cc) in sls:
            s = sl(a, b, cc)
            k = len(range(r)[slice(a, b, cc)])
            yield "matrix-slice", ["m alloc %d %d %s" % (r, c, vals(bv)), "m getslice 0 " + s, "m setscalar 0 %s 99" % s,
                                   "alloc " + vals(base_vals(c, 50)), "m setvector 0 %s 0" % s,
                                   "alloc " + vals(base_vals(c + 1, 50)), "m setvector 0 %s 1" % s,
                                   "m alloc %d %d %s" % (k, c, vals(base_vals(k * c, 70))), "m setmatrix 0 %s 2" % s,
                                   "m alloc %d %d %s" % (k + 1, c, vals(base_vals((k + 1) * c, 70))), "m setmatrix 0 %s 3" % s]
        for i in range(-r - 1, r + 1):
            # `m[i]` with an int resolves to the row overload (`m row`); `m[i] = x` is setitem_scalar
            yield "matrix-slice", ["m alloc %d %d %s" % (r, c, vals(bv)), "m setscalar 0 i:%d 9" % i,
                                   "alloc " + vals(base_vals(c, 50)), "m setvector 0 i:%d 0" % i]


# ----------------------------------------------------------------------------------------------
# FixedVArray (VIntArray, VFloatArray, VV2iArray, VV2fArray): nested lists

def v_sizes(n):
    return [(2 * i + 1) % 3 for i in range(n)]          # 1,0,2,1,0,... (empty rows included)


def v_setup(n):
    """`alloci sizes; v newsizes 0 5` then every element set to 10*(row+1)+column: VArray 0, 1-D array 0"""
    sz = v_sizes(n)
    p = ["alloci " + vals(sz), "v newsizes 0 5"]
    for i, k in enumerate(sz):
        p += ["v setelem 0 %d %d %d" % (i, j, 10 * (i + 1) + j) for j in range(k)]
    return p, sz


def exhaustive_varray(maxlen=4, rng=5, full=True):
    steps = [None, 1, 2, 3, -1, -2]
    bounds = [None] + list(range(-rng, rng + 1))
    slices = [(a, b, c) for a in bounds for b in bounds for c in steps]
    if not full:
        slices = [x for i, x in enumerate(slices) if i % 7 == 0 or x[2] in (None, 2) and x[0] in (None, 1, -1) and x[1] in (None, -1, 3)]
    for n in range(maxlen + 1):
        setup, sz = v_setup(n)
        # (a) int indices of any sign: rows, sizes, element writes through the row reference, constructors, len
        p = list(setup) + ["v len 0"]
        for i in range(-n - 1, n + 1):
            p += ["v row 0 %d" % i, "v setelem 0 %d 0 7" % i, "v setelem 0 %d -1 8" % i, "v setelem 0 %d 2 9" % i,
                  "v setsize 0 i:%d 1" % i]
        p += ["v new %d" % n, "v newfill 3 %d" % n, "v copy 0", "v len 1", "v len 2", "v row 2 0", "v setelem 3 0 0 4", "v row 0 0"]
        yield "varray-index", p
        # `va.size[i]` / `va.size[mask]` in programs of their own (SizeHelper overload resolution)
        yield "varray-size", list(setup) + ["v size 0 %d" % i for i in range(-n - 1, n + 1)]
        # (b) every slice: rows, sizes, resize, one-row assignment (right / wrong length), array assignment (right / wrong)
        for (a, b, c) in slices:
            ks = list(range(n))[slice(a, b, c)]
            k = len(ks)
            s = sl(a, b, c)
            l0 = sz[ks[0]] if ks else 0
            # 1-D ids: 0 sizes 1 row(l0) 2 row(l0+1) 3 [2]*k 4 [1]*(k+1) 5 1..k ; VArrays: 0, 1 (k rows), 2 (k+1 rows)
            p = list(setup) + ["alloc " + vals(base_vals(l0, 50)), "alloc " + vals(base_vals(l0 + 1, 60)),
                               "alloci " + vals([2] * k), "alloci " + vals([1] * (k + 1)), "alloci " + vals(list(range(1, k + 1))),
                               "v newsizes 3 7", "v newsizes 4 6",
                               "v setrow 0 %s 1" % s, "v setrow 0 %s 2" % s, "v setvec 0 %s 1" % s, "v setvec 0 %s 2" % s,
                               "v setsizevec 0 %s 5" % s, "v setsizevec 0 %s 4" % s, "v setsize 0 %s 1" % s, "v len 0",
                               "v getslice 0 " + s, "v sizeslice 0 " + s]
            yield "varray-slice", p
        yield "varray-slice", list(setup) + ["v getslice 0 s:N:N:0", "v setsize 0 s:N:N:0 1"]
        # (c) every 0/1 mask
        for bits in itertools.product((0, 1), repeat=n):
            cnt = sum(bits)
            sel = [i for i in range(n) if bits[i]]
            l0 = sz[sel[0]] if sel else 0
            yield "varray-size", list(setup) + ["alloci " + vals(bits), "v getmask 0 1", "v sizemask 0 1"] + \
                ["v size 1 %d" % i for i in range(cnt)] + ["alloci " + vals([1] * cnt), "v sizemask 1 2"]
            p = list(setup) + ["alloci " + vals(bits), "v getmask 0 1", "v len 1"]
            p += ["v row 1 %d" % i for i in range(-cnt - 1, cnt + 1)]
            p += ["alloc " + vals(base_vals(l0, 50)), "v setrowmask 0 1 2",
                  "alloci " + vals([2] * n), "v newsizes 3 7", "v setvecmask 0 1 2",       # same length
                  "alloci " + vals([3] * cnt), "v newsizes 4 8", "v setvecmask 0 1 3",     # packed
                  "alloci " + vals([1] * (n + cnt + 1)), "v newsizes 5 9", "v setvecmask 0 1 4",   # wrong
                  "v setsizemask 0 1 1", "alloci " + vals(list(range(n))), "v setsizevecmask 0 1 6",
                  "alloci " + vals(list(range(2, cnt + 2))), "v setsizevecmask 0 1 7", "v setsizevecmask 0 1 5",
                  # through the masked reference: slices, element writes, resize, masks on masks
                  "v getslice 1 s:N:N:N", "v getslice 1 s:1:N:2", "v sizeslice 1 s:N:N:N", "v setelem 1 0 0 4", "v setsize 1 s:N:N:N 2",
                  # (`v sizeslice` made 1-D array 8) 9: a 2-element row, 10: a mask of the MASKED length
                  "alloc " + vals(base_vals(2, 70)), "v setrow 1 s:N:N:N 9", "v setvec 1 s:N:N:N 3", "v getmask 1 1",
                  "v setvecmask 1 1 2", "v setsizevecmask 1 1 6", "v setrowmask 1 1 9", "v setsizemask 1 1 3",
                  "alloci " + vals([1] + [0] * (cnt - 1) if cnt else []), "v setsizemask 1 10 1", "v setrowmask 1 10 9",
                  "v copy 1", "v len 0",
                  # the four masked write paths with a NON-TRIVIAL start / step (raw_ptr_index(start + i*step), not raw_ptr_index(i)):
                  # 1-D 11: sizes of cnt-1 rows, VArray 8: cnt-1 rows; 1-D 12: cnt-1 new sizes
                  "alloci " + vals([1] * max(cnt - 1, 0)), "v newsizes 11 4", "v setsize 1 s:N:N:N 1", "v setvec 1 s:1:N:N 8",
                  "v setsize 1 s:1:N:N 3", "alloci " + vals(list(range(2, max(cnt - 1, 0) + 2))), "v setsizevec 1 s:1:N:N 12",
                  "v setsize 1 s:N:N:N 2", "v setrow 1 s:1:N:2 9", "v sizeslice 1 s:N:N:2", "v row 0 0"]
            yield "varray-mask", p
            # wrong mask lengths
            yield "varray-mask-mismatch", list(setup) + ["alloci " + vals(list(bits) + [1]), "v getmask 0 1",
                                                         "v setsizemask 0 1 2", "alloc 5", "v setrowmask 0 1 2", "v copy 0",
                                                         "v setvecmask 0 1 1", "v setsizevecmask 0 1 1"]
            # (d) read-only: the array, a masked reference / handle copy derived from it — one attempt per program
            ro = list(setup) + ["alloci " + vals(bits), "v ro 0", "v getmask 0 1", "v copy 0", "v getslice 0 s:N:N:N",
                                "alloc " + vals(base_vals(l0, 50)), "alloci " + vals([2] * n), "v newsizes 3 7"]
            # VArrays: 0 base(ro) 1 masked ref 2 handle copy 3 slice copy (writable) 4 data(n rows); 1-D: 1 mask 2 row data 3 sizes
            for v in (0, 1, 2):
                for mline in ["v setelem %d 0 0 1" % v, "v setrow %d s:N:N:N 2" % v, "v setrowmask %d 1 2" % v, "v setvec %d s:N:N:N 4" % v,
                              "v setvecmask %d 1 4" % v, "v setsize %d s:N:N:N 3" % v, "v setsizemask %d 1 3" % v,
                              "v setsizevec %d s:N:N:N 3" % v, "v setsizevecmask %d 1 3" % v]:
                    yield "varray-readonly", ro + [mline, "v row 0 0"]
            yield "varray-readonly", ro + ["v setsize 3 s:N:N:N 1", "v len 3"]
    # (e) an exception raised in the middle of a write loop (row lengths differ)
    yield "varray-partial", ["alloci 2,2,1,2", "v newsizes 0 5", "alloc 8,9", "v setrow 0 s:N:N:N 1", "v row 0 3",
                             "alloci 1,1,1,1", "v setrowmask 0 2 1"]


# ----------------------------------------------------------------------------------------------
# StringArray / WstringArray: several arrays, each with its own string table (`sa` / `saw` ops)

def string_programs(rng, count=150, wide=False, maxlen=4):
    """slice / mask / array assignments between arrays whose tables interned the strings in DIFFERENT orders, `==`,
    slices (fresh table), default construction, read-only; exhaustive masks for lengths <= maxlen + seeded random"""
    pre = "saw" if wide else "sa"
    pool = ["a", "b", "c", "dd", "e"]

    def fill(aid, strs, order):
        # element i receives strs[i], assigned in the given order: the table's index of a string depends on the order
        return ["%s set %d i:%d %s" % (pre, aid, i, strs[i]) for i in order]
    sls = [(None, None, None), (None, None, 2), (1, None, None), (None, -1, None), (None, None, -1), (-2, None, None),
           (None, None, -2), (0, 0, None), (5, None, None), (None, None, 0)]
    for n in range(maxlen + 1):
        strs = [pool[i % len(pool)] for i in range(n)]
        for (a, b, c) in sls:
            k = len(range(n)[slice(a, b, c)]) if c != 0 else 0
            src = [pool[(i + 2) % len(pool)] for i in range(k)]
            p = ["%s new %d z" % (pre, n)] + fill(0, strs, range(n)) + \
                ["%s new %d y" % (pre, k)] + fill(1, src, reversed(range(k))) + \
                ["%s new %d y" % (pre, k + 1),
                 "%s getslice 0 %s" % (pre, sl(a, b, c)), "%s setvec 0 %s 1" % (pre, sl(a, b, c)), "%s setvec 0 %s 2" % (pre, sl(a, b, c)),
                 "%s set 0 %s q" % (pre, sl(a, b, c)), "%s eq 0 1" % pre, "%s ne 0 0" % pre, "%s eqs 0 q" % pre, "%s nes 0 zz" % pre,
                 "%s len 0" % pre] + ["%s get 0 %d" % (pre, i) for i in range(-n - 1, n + 1)]
            yield "string-slice", p
        for bits in itertools.product((0, 1), repeat=n):
            cnt = sum(bits)
            m = vals(bits)
            p = ["%s new %d z" % (pre, n)] + fill(0, strs, range(n)) + \
                ["%s new %d x" % (pre, n)] + fill(1, [pool[(i + 1) % len(pool)] for i in range(n)], reversed(range(n))) + \
                ["%s new %d w" % (pre, cnt)] + fill(2, [pool[(i + 3) % len(pool)] for i in range(cnt)], range(cnt)) + \
                ["%s new %d v" % (pre, n + cnt + 1),
                 "%s setvecmask 0 %s 1" % (pre, m), "%s setvecmask 0 %s 2" % (pre, m), "%s setvecmask 0 %s 3" % (pre, m),
                 "%s setmask 0 %s q" % (pre, m), "%s setmask 0 %s q" % (pre, vals(list(bits) + [1])), "%s eq 0 1" % pre,
                 "%s eq 0 3" % pre, "%s default %d" % (pre, n), "%s eqs 4 q" % pre, "%s setvec 4 s:N:N:N 0" % pre, "%s ne 4 0" % pre]
            yield "string-mask", p
            if not wide:
                ro = ["%s new %d z" % (pre, n)] + fill(0, strs, range(n)) + ["%s new %d x" % (pre, n), "%s ro 0" % pre]
                for w in ["set 0 s:N:N:N q", "set 0 i:0 q", "setmask 0 %s q" % m, "setvec 0 s:N:N:N 1", "setvecmask 0 %s 1" % m]:
                    yield "string-readonly", ro + ["%s %s" % (pre, w), "%s eqs 0 q" % pre, "%s getslice 0 s:N:N:N" % pre, "%s set 2 s:N:N:N k" % pre]
        yield "string-alias", ["%s new %d z" % (pre, n)] + fill(0, strs, range(n)) + ["%s setvec 0 s:N:N:-1 0" % pre, "%s len 0" % pre]
    for _ in range(count):
        n = rng.randint(0, 5)
        p = ["%s new %d %s" % (pre, n, rng.choice(pool)), "%s new %d %s" % (pre, rng.randint(0, 5), rng.choice(pool))]
        lens = [n, int(p[1].split()[2])]
        for _ in range(rng.randint(3, 14)):
            a = rng.randrange(len(lens)); b = rng.randrange(len(lens))
            f = lambda: "N" if rng.random() < 0.4 else str(rng.randint(-6, 6))
            ix = "i:%d" % rng.randint(-lens[a] - 1, lens[a]) if rng.random() < 0.4 else "s:%s:%s:%s" % (f(), f(), rng.choice(["N", "1", "2", "-1", "-2"]))
            bits = vals([rng.randint(0, 1) for _ in range(lens[a] if rng.random() < 0.85 else lens[a] + 1)])
            op = rng.choice(["set", "set", "setmask", "setvec", "setvec", "setvecmask", "getslice", "eq", "eqs", "get"])
            if op == "set":
                p.append("%s set %d %s %s" % (pre, a, ix, rng.choice(pool)))
            elif op == "setmask":
                p.append("%s setmask %d %s %s" % (pre, a, bits, rng.choice(pool)))
            elif op == "setvec":
                p.append("%s setvec %d %s %d" % (pre, a, ix, b))
            elif op == "setvecmask":
                p.append("%s setvecmask %d %s %d" % (pre, a, bits, b))
            elif op == "getslice":
                # (an int key returns a str, not an array)
                ix = "s:%s:%s:%s" % (f(), f(), rng.choice(["N", "1", "2", "-1", "-2"]))
                p.append("%s getslice %d %s" % (pre, a, ix))
                t = ix.split(":"); g = lambda x: None if x == "N" else int(x)
                lens.append(len(range(lens[a])[slice(g(t[1]), g(t[2]), g(t[3]))]))
            elif op == "eq":
                p.append("%s eq %d %d" % (pre, a, b))
            elif op == "eqs":
                p.append("%s eqs %d %s" % (pre, a, rng.choice(pool)))
            else:
                p.append("%s get %d %d" % (pre, a, rng.randint(-lens[a] - 1, lens[a])))
        yield "string-random", p


def write_stream(programs):
    """-> (text, [(kind, first_line_no, nlines)])"""
    out, index, ln = [], [], 0
    for kind, p in programs:
        out.append("reset")
        out.extend(p)
        index.append((kind, ln + 1, len(p)))
        ln += 1 + len(p)
    return "\n".join(out) + "\n", index
