"""Program generators for C19 (pure Python, no imath needed).

A *program* is a list of op lines (see lean/Driver/FixedArray.lean); programs are
separated by `reset` when written to a stream.  Every generator yields
(kind, [lines]); `kind` names the family for the evidence counts."""
import itertools, random

try:
    from c19_harness import SpecExec, BadRef, SpecErr
except ImportError:  # imported as a module from tools/
    import os, sys
    sys.path.insert(0, os.path.dirname(os.path.abspath(__file__)))
    from c19_harness import SpecExec, BadRef, SpecErr


def vals(l):
    return ",".join(str(x) for x in l) if l else "-"


def sl(a, b, c):
    f = lambda x: "N" if x is None else str(x)
    return "s:%s:%s:%s" % (f(a), f(b), f(c))


def base_vals(n, off=10):
    return list(range(off, off + n))


def all_slices(rng, steps):
    bounds = [None] + list(range(-rng, rng + 1))
    stp = [None] + [s for s in range(-steps, steps + 1) if s != 0]
    return [(a, b, c) for a in bounds for b in bounds for c in stp]


def exhaustive_1d(maxlen=6, rng=8, steps=3, masklen=5, mrng=4, iadd=True, convert=True, full=True):
    """Small-scope exhaustive families for one element type."""
    slices = all_slices(rng, steps)
    # (a) integer indices
    for n in range(maxlen + 1):
        p = ["alloc " + vals(base_vals(n))]
        p += ["getitem 0 %d" % i for i in range(-rng, rng + 1)]
        p += ["setscalar 0 i:%d 77" % i for i in range(-rng, rng + 1)]
        p += ["len 0"]
        yield "index", p
    # (b) every slice: read, scalar write, vector write with right and wrong lengths
    for n in range(maxlen + 1):
        bv = base_vals(n)
        for (a, b, c) in slices:
            k = len(range(n)[slice(a, b, c)])
            s = sl(a, b, c)
            p = ["alloc " + vals(bv), "getslice 0 " + s, "setscalar 0 %s 99" % s,
                 "alloc " + vals(base_vals(k, 50)), "setvector 0 %s 2" % s,
                 "alloc " + vals(base_vals(k + 1, 70)), "setvector 0 %s 3" % s]
            if k > 0:
                p += ["alloc " + vals(base_vals(k - 1, 80)), "setvector 0 %s 4" % s]
            yield "slice", p
    yield "slice", ["alloc 1,2,3", "getslice 0 s:N:N:0", "setscalar 0 s:0:2:0 5"]
    # (c) every 0/1 mask
    for n in range(masklen + 1):
        bv = base_vals(n)
        for bits in itertools.product((0, 1), repeat=n):
            cnt = sum(bits)
            p = ["alloc " + vals(bv), "alloci " + vals(bits), "getmask 0 1"]
            p += ["getitem 2 %d" % i for i in range(-n - 1, n + 1)]
            p += ["len 2", "setscalarmask 0 1 77",
                  "alloc " + vals(base_vals(n, 30)), "setvectormask 0 1 3",
                  "alloc " + vals(base_vals(cnt, 40)), "setvectormask 0 1 4",
                  "alloc " + vals(base_vals(n + cnt + 1, 60)), "setvectormask 0 1 5",
                  "ifelses 0 1 5", "ifelsev 0 1 3", "ifelsev 0 1 5",
                  "setscalar 2 s:N:N:N 8", "setvector 2 s:N:N:N 4", "setvector 2 s:N:N:-1 4",
                  "getslice 2 s:N:N:-1", "getslice 2 s:1:N:2",
                  "getmask 2 1", "setvectormask 2 1 4", "copy 2", "len 0"]
            if iadd:
                p += ["iadds 2 3", "iaddv 2 4", "iaddv 2 3", "iaddv 2 5", "iadds 0 1", "iaddv 0 3", "iaddv 0 4"]
            yield "mask", p
            # wrong mask lengths, non-0/1 mask values
            p = ["alloc " + vals(bv), "alloci " + vals(list(bits) + [1]), "getmask 0 1", "setscalarmask 0 1 5",
                 "setvectormask 0 1 0", "ifelses 0 1 2", "ifelsev 0 1 0", "alloci " + vals([b * (-3) for b in bits]),
                 "getmask 0 2", "setscalarmask 0 2 6"]
            if n > 0:
                p += ["alloci " + vals(bits[:-1]), "getmask 0 4", "setscalarmask 0 4 5"]
            yield "mask-mismatch", p
    # (d) slices of masked references
    mslices = all_slices(mrng, 2 if not full else steps)
    for n in range(min(masklen, 4) + 1):
        bv = base_vals(n)
        for bits in itertools.product((0, 1), repeat=n):
            cnt = sum(bits)
            for (a, b, c) in mslices:
                k = len(range(cnt)[slice(a, b, c)])
                s = sl(a, b, c)
                yield "masked-slice", ["alloc " + vals(bv), "alloci " + vals(bits), "getmask 0 1", "getslice 2 " + s,
                                       "setscalar 2 %s 9" % s, "alloc " + vals(base_vals(k, 50)), "setvector 2 %s 4" % s]
    # (e) masks applied to masked references (setitem_scalar_mask / in-place with the unmasked length)
    for n in range(min(masklen, 4) + 1):
        bv = base_vals(n)
        for bits in itertools.product((0, 1), repeat=n):
            cnt = sum(bits)
            for bits2 in itertools.product((0, 1), repeat=cnt):
                yield "mask-on-masked", ["alloc " + vals(bv), "alloci " + vals(bits), "getmask 0 1",
                                         "alloci " + vals(bits2), "setscalarmask 2 3 7", "setscalarmask 2 1 8"]
    # (f) read-only protection: every mutating operation through the array, a masked reference, a handle copy,
    #     a masked reference of the copy and a copy of the masked reference — one program per attempt
    for n in range(min(masklen, 4) + 1):
        bv = base_vals(n)
        for bits in itertools.product((0, 1), repeat=n):
            cnt = sum(bits)
            setup = ["alloc " + vals(bv), "alloci " + vals(bits), "alloc " + vals(base_vals(n, 30)),
                     "alloc " + vals(base_vals(cnt, 40)), "ro 0", "getmask 0 1", "copy 0", "getslice 0 s:N:N:N",
                     "getmask 5 1", "copy 4", "alloci " + vals([1] * cnt)]
            # views: 0 base(ro) 1 mask 2 data(n) 3 data(cnt) 4 masked ref 5 handle copy 6 slice copy (writable)
            #        7 masked ref of the copy 8 copy of the masked ref 9 all-ones choice of the masked length
            for v in (0, 4, 5, 7, 8):
                muts = ["setscalar %d i:0 1" % v, "setscalar %d s:N:N:N 1" % v, "setscalarmask %d 1 1" % v,
                        "setvector %d s:N:N:N 2" % v, "setvector %d s:N:N:N 3" % v, "setvectormask %d 1 2" % v,
                        "setvectormask %d 1 3" % v]
                if iadd:
                    muts += ["iadds %d 5" % v, "iaddv %d 2" % v, "iaddv %d 3" % v]
                for mline in muts:
                    yield "readonly", setup + [mline, "getitem 0 0"]
            yield "readonly", setup + ["setscalar 6 s:N:N:N 1", "len 6"]
            yield "readonly-read", setup + ["ifelses 0 1 9"]
            yield "readonly-read", setup + ["ifelsev 0 1 2"]
            yield "readonly-read", setup + ["ifelses 4 9 9"]
            yield "readonly-read", setup + ["getslice 0 s:N:N:-1", "getitem 4 0", "getitem 0 -1"]
    # (g) converting constructor
    if convert:
        for n in range(masklen + 1):
            bv = base_vals(n)
            yield "convert", ["alloc " + vals(bv), "convert 0", "len 1"] + ["getitem 1 %d" % i for i in range(-n - 1, n + 1)]
            for bits in itertools.product((0, 1), repeat=n):
                p = ["alloc " + vals(bv), "alloci " + vals(bits), "getmask 0 1", "convert 2", "len 3"]
                p += ["getitem 3 %d" % i for i in range(sum(bits))]
                yield "convert-masked", p


# ----------------------------------------------------------------------------------------------
# random op sequences

MUT = ("setscalar", "setscalarmask", "setvector", "setvectormask", "iadds", "iaddv")


def random_program(rng, nops=20, iadd=True, convert=True, typed=False, quirks=("slice", "ifelse")):
    """One random program.  A SpecExec shadow is used only to pick plausible arguments (right lengths most
    of the time); the program stays well-formed even when the shadow is wrong about the real code."""
    sp = SpecExec(quirks=set(quirks))
    lines = []
    ints, foreign = set(), set()       # ids of IntArrays (alloci) / of views of another class (convert and derived)

    def emit(l):
        lines.append(l)
        n0 = len(sp.objs)
        try:
            sp.run(l.split())
        except (BadRef, SpecErr, Exception):
            pass
        if len(sp.objs) > n0:
            t = l.split()
            if t[0] == "alloci":
                ints.add(n0)
            elif t[0] == "convert" or (t[0] in ("getslice", "getmask", "copy", "ifelses", "ifelsev") and int(t[1]) in foreign):
                foreign.add(n0)
            elif t[0] in ("getslice", "getmask", "copy", "ifelses", "ifelsev") and int(t[1]) in ints:
                ints.add(n0)

    def rint(lo, hi):
        return rng.randint(lo, hi)

    def pick(pred=None, kind="elem"):
        """kind: elem = arrays of the class under test; int = usable as mask/choice; any = anything (reads only)"""
        def okk(i):
            if kind == "any":
                return True
            if i in foreign:          # an array of another class (converting constructor): reads only
                return False
            if not typed:
                return True
            if kind == "int":
                return i in ints
            return i not in ints
        c = [i for i, o in enumerate(sp.objs) if okk(i) and (pred is None or pred(o))]
        return rng.choice(c) if c else None

    def rslice():
        f = lambda: None if rng.random() < 0.3 else rint(-8, 8)
        st = None if rng.random() < 0.3 else rng.choice([-3, -2, -1, 1, 2, 3])
        return sl(f(), f(), st)

    def ridx(n):
        if rng.random() < 0.4:
            return "i:%d" % rint(-n - 1, n)
        return rslice()

    def new_of_len(n, kind="alloc", lo=0, hi=9):
        emit("%s %s" % (kind, vals([rint(lo, hi) for _ in range(n)])))
        return len(sp.objs) - 1

    n0 = rint(0, 6)
    emit("alloc " + vals(base_vals(n0)))
    while len(lines) < nops:
        v = pick()
        if v is None:
            v = 0
        o = sp.objs[v]
        n = len(o)
        r = rng.random()
        ops = ["getitem", "getslice", "getmask", "copy", "setscalar", "setscalarmask", "setvector", "setvectormask",
               "ifelses", "ifelsev", "ro", "alloc", "len"]
        wts = [2, 3, 4, 2, 3, 3, 3, 3, 1, 1, 1, 1, 1]
        if iadd:
            ops += ["iadds", "iaddv"]; wts += [4, 4]
        if convert:
            ops += ["convert"]; wts += [1]
        op = rng.choices(ops, wts)[0]
        right = rng.random() < 0.8
        if op == "getitem":
            va = pick(None, "any")
            emit("getitem %d %d" % (va, rint(-len(sp.objs[va]) - 1, len(sp.objs[va]))))
        elif op == "len":
            emit("len %d" % pick(None, "any"))
        elif op == "getslice":
            emit("getslice %d %s" % (v, rslice()))
        elif op in ("getmask", "setscalarmask", "ifelses"):
            ln = n if right else (o.ulen if (o.sel is not None and rng.random() < 0.6) else max(0, n + rng.choice([-1, 1])))
            m = pick(lambda x: len(x) == ln and all(b in (0, 1) for b in x.tolist()), "int") if rng.random() < 0.3 else None
            if m is None:
                m = new_of_len(ln, "alloci", 0, 1)
            if op == "getmask":
                emit("getmask %d %d" % (v, m))
            elif op == "setscalarmask":
                emit("setscalarmask %d %d %d" % (v, m, rint(0, 9)))
            else:
                emit("ifelses %d %d %d" % (v, m, rint(0, 9)))
        elif op == "copy":
            emit("copy %d" % v)
        elif op == "convert":
            emit("convert %d" % v)
        elif op == "setscalar":
            emit("setscalar %d %s %d" % (v, ridx(n), rint(0, 9)))
        elif op == "setvector":
            idx = ridx(n)
            try:
                k = len(sp.sel_of(o, __import__("c19_harness").p_idx(idx)))
            except Exception:
                k = 1
            ln = k if right else max(0, k + rng.choice([-1, 1]))
            d = pick(lambda x: len(x) == ln) if rng.random() < 0.5 else None
            if d is None:
                d = new_of_len(ln)
            emit("setvector %d %s %d" % (v, idx, d))
        elif op in ("setvectormask", "ifelsev"):
            m = new_of_len(n if right else max(0, n + rng.choice([-1, 1])), "alloci", 0, 1)
            cnt = sum(1 for b in sp.objs[m].tolist() if b)
            ln = rng.choice([n, cnt]) if right else n + cnt + 1
            d = pick(lambda x: len(x) == ln) if rng.random() < 0.5 else None
            if d is None:
                d = new_of_len(ln)
            emit("%s %d %d %d" % (op, v, m, d))
        elif op == "ro":
            emit("ro %d" % v)
        elif op == "alloc":
            new_of_len(rint(0, 6))
        elif op == "iadds":
            emit("iadds %d %d" % (v, rint(1, 3)))
        elif op == "iaddv":
            ln = n if right else (o.ulen if (o.sel is not None and rng.random() < 0.7) else max(0, n + rng.choice([-1, 1])))
            d = pick(lambda x: len(x) == ln) if rng.random() < 0.6 else None
            if d is None:
                d = new_of_len(ln, "alloc", 0, 3)
            emit("iaddv %d %d" % (v, d))
    return lines


def random_programs(seed, count, nops=20, iadd=True, convert=True, typed=False, quirks=("slice", "ifelse")):
    rng = random.Random(seed)
    for _ in range(count):
        yield "random", random_program(rng, rng.randint(6, nops), iadd, convert, typed, quirks)


def boolify(programs):
    """element values restricted to 0/1 (BoolArray)"""
    def fix_vals(v):
        return v if v == "-" else ",".join(str(int(x) % 2) for x in v.split(","))
    for kind, p in programs:
        out = []
        for l in p:
            t = l.split()
            if t[0] == "alloc":
                t[1] = fix_vals(t[1])
            elif t[0] in ("setscalar", "setscalarmask", "ifelses"):
                t[3] = str(int(t[3]) % 2)
            out.append(" ".join(t))
        yield kind, out


# ----------------------------------------------------------------------------------------------
# FixedArray2D / FixedMatrix (IntArray2D, IntMatrix)

def exhaustive_2d(rng=4):
    bounds = [None] + list(range(-rng, rng + 1))
    stp = [None, 1, 2, 3, -1, -2]
    sls = [(a, b, c) for a in bounds for b in bounds for c in stp]
    shapes = [(0, 0), (1, 1), (2, 3), (3, 2), (1, 3), (3, 1)]
    for (lx, ly) in shapes:
        bv = base_vals(lx * ly)
        p = ["d2 alloc %d %d %s" % (lx, ly, vals(bv))]
        p += ["d2 item 0 %d %d" % (i, j) for i in range(-lx - 1, lx + 1) for j in range(-ly - 1, ly + 1)]
        yield "2d-index", p
        # every slice on x with a fixed slice on y and vice versa; int index per dimension
        for (a, b, c) in sls:
            s = sl(a, b, c)
            kx = len(range(lx)[slice(a, b, c)]); ky = len(range(ly)[slice(a, b, c)])
            for (ix, iy, wx, wy) in ((s, "s:N:N:N", kx, ly), ("s:N:N:N", s, lx, ky), (s, s, kx, ky),
                                     (s, "i:0", kx, 1), ("i:-1", s, 1, ky)):
                p = ["d2 alloc %d %d %s" % (lx, ly, vals(bv)), "d2 getslice 0 %s %s" % (ix, iy),
                     "d2 setscalar 0 %s %s 99" % (ix, iy),
                     "d2 alloc %d %d %s" % (wx, wy, vals(base_vals(wx * wy, 50))), "d2 setvector 0 %s %s 2" % (ix, iy),
                     "alloc " + vals(base_vals(wx * wy, 70)), "d2 set1d 0 %s %s 0" % (ix, iy),
                     "d2 alloc %d %d %s" % (wx + 1, wy, vals(base_vals((wx + 1) * wy, 50))),
                     "d2 setvector 0 %s %s 3" % (ix, iy)]
                yield "2d-slice", p
    for (lx, ly) in [(1, 1), (2, 2), (3, 1), (2, 3)]:
        bv = base_vals(lx * ly)
        for bits in itertools.product((0, 1), repeat=lx * ly):
            yield "2d-mask", ["d2 alloc %d %d %s" % (lx, ly, vals(bv)), "d2 alloc %d %d %s" % (lx, ly, vals(bits)),
                              "d2 getmask 0 1", "d2 setscalarmask 0 1 77",
                              "d2 alloc %d %d %s" % (lx, ly, vals(base_vals(lx * ly, 40))), "d2 setvectormask 0 1 3",
                              "d2 alloc %d %d %s" % (lx + 1, ly, vals(base_vals((lx + 1) * ly, 40))),
                              "d2 setvectormask 0 1 4", "d2 getmask 0 4"]


def exhaustive_matrix(rng=4):
    bounds = [None] + list(range(-rng, rng + 1))
    stp = [None, 1, 2, 3, -1, -2, -3]
    sls = [(a, b, c) for a in bounds for b in bounds for c in stp]
    for (r, c) in [(0, 2), (1, 1), (2, 3), (3, 2), (4, 1)]:
        bv = base_vals(r * c)
        p = ["m alloc %d %d %s" % (r, c, vals(bv))]
        for i in range(-r - 1, r + 1):
            p += ["m row 0 %d" % i]
        # write through the row views
        p += ["setscalar %d i:0 5" % k for k in range(r)]
        yield "matrix-row", p
        for (a, b, cc) in sls:
            s = sl(a, b, cc)
            k = len(range(r)[slice(a, b, cc)])
            yield "matrix-slice", ["m alloc %d %d %s" % (r, c, vals(bv)), "m getslice 0 " + s, "m setscalar 0 %s 99" % s,
                                   "alloc " + vals(base_vals(c, 50)), "m setvector 0 %s 0" % s,
                                   "alloc " + vals(base_vals(c + 1, 50)), "m setvector 0 %s 1" % s,
                                   "m alloc %d %d %s" % (k, c, vals(base_vals(k * c, 70))), "m setmatrix 0 %s 2" % s,
                                   "m alloc %d %d %s" % (k + 1, c, vals(base_vals((k + 1) * c, 70))), "m setmatrix 0 %s 3" % s]
        for i in range(-r - 1, r + 1):
            # `m[i]` with an int resolves to the row overload (`m row`); `m[i] = x` is setitem_scalar
            yield "matrix-slice", ["m alloc %d %d %s" % (r, c, vals(bv)), "m setscalar 0 i:%d 9" % i,
                                   "alloc " + vals(base_vals(c, 50)), "m setvector 0 i:%d 0" % i]


def write_stream(programs):
    """-> (text, [(kind, first_line_no, nlines)])"""
    out, index, ln = [], [], 0
    for kind, p in programs:
        out.append("reset")
        out.extend(p)
        index.append((kind, ln + 1, len(p)))
        ln += 1 + len(p)
    return "\n".join(out) + "\n", index
