// C20, clause "the scalar bindings return what the C++ library returns".
//
// Reference side of harness/py/c20_scalar.py: a table of (python class, python method, argument types) ->
// the C++ library expression the binding stands for, evaluated IN-PROCESS on the real headers / sources of
// the current tree (compiled by tools/props/c20.py with lib.cxx_build: -O1 -ffp-contract=off).
//
//   c20_scalar_ref list            one line per entry:  <idx> <cls> <method> <in types...> -> <out types...>
//   c20_scalar_ref run  < cases    one case per line:   <idx> <tokens...>   ->   one line of result tokens
//
// Token encoding: float = 8 hex digits (bit pattern), double = 16 hex digits, integers decimal, bool 0/1.
// The types of an entry are not written down twice: every entry is a lambda that pulls its inputs with
// c.get<X>() and pushes its outputs with c.put(x); `list` runs each lambda once in describe mode.
//
// Conventions understood by the python side: the first input is `self` unless cls == "imath" (module
// function) or method == "__init__" (constructor: inputs are the constructor arguments); a method that
// mutates self and returns nothing outputs self after the call.
#include <ImathBox.h>
#include <ImathBoxAlgo.h>
#include <ImathColor.h>
#include <ImathColorAlgo.h>
#include <ImathEuler.h>
#include <ImathFrustum.h>
#include <ImathFrustumTest.h>
#include <ImathFun.h>
#include <ImathLine.h>
#include <ImathLineAlgo.h>
#include <ImathMatrix.h>
#include <ImathMatrixAlgo.h>
#include <ImathPlane.h>
#include <ImathQuat.h>
#include <ImathRandom.h>
#include <ImathShear.h>
#include <ImathVec.h>
#include <ImathVecAlgo.h>

#include <cinttypes>
#include <cmath>
#include <cstdint>
#include <cstdio>
#include <cstring>
#include <functional>
#include <iostream>
#include <sstream>
#include <stdexcept>
#include <string>
#include <vector>

using namespace IMATH_INTERNAL_NAMESPACE;

struct Ctx
{
    bool describe = false;
    std::vector<std::string> toks;
    size_t pos = 0;
    std::vector<std::string> in_types, out_types;
    std::string out;

    const std::string& tok ()
    {
        static const std::string one = "1";
        if (describe) return one;       // describe mode evaluates every entry once on all-ones tokens
        if (pos >= toks.size ()) throw std::runtime_error ("too few tokens");
        return toks[pos++];
    }
    void emit (const std::string& s)
    {
        if (!out.empty ()) out += ' ';
        out += s;
    }
    template <class X> X    get ();
    template <class X> void put (const X& x);
};

template <class X> struct IO;

// ---- numbers ------------------------------------------------------------------------------------------
template <> struct IO<float>
{
    static const char* name () { return "f"; }
    static float       read (Ctx& c)
    {
        uint32_t u = (uint32_t) std::stoul (c.tok (), nullptr, 16);
        float    f;
        std::memcpy (&f, &u, 4);
        return f;
    }
    static void write (Ctx& c, float f)
    {
        uint32_t u;
        std::memcpy (&u, &f, 4);
        char b[16];
        std::snprintf (b, sizeof b, "%08x", u);
        c.emit (b);
    }
};
template <> struct IO<double>
{
    static const char* name () { return "d"; }
    static double      read (Ctx& c)
    {
        uint64_t u = (uint64_t) std::stoull (c.tok (), nullptr, 16);
        double   f;
        std::memcpy (&f, &u, 8);
        return f;
    }
    static void write (Ctx& c, double f)
    {
        uint64_t u;
        std::memcpy (&u, &f, 8);
        char b[24];
        std::snprintf (b, sizeof b, "%016" PRIx64, u);
        c.emit (b);
    }
};
#define INT_IO(T, N)                                                                                                   \
    template <> struct IO<T>                                                                                           \
    {                                                                                                                  \
        static const char* name () { return N; }                                                                       \
        static T           read (Ctx& c) { return (T) std::stoll (c.tok ()); }                                         \
        static void        write (Ctx& c, T v) { c.emit (std::to_string ((long long) v)); }                            \
    };
INT_IO (short, "s")
INT_IO (int, "i")
INT_IO (int64_t, "l")
INT_IO (unsigned char, "c")
INT_IO (bool, "b")
INT_IO (size_t, "z")

struct Ord { int v = 0x0101; };        // an Euler<T>::Order value (python: imath.Order), transferred as its integer
template <> struct IO<Ord>
{
    static const char* name () { return "Order"; }
    static Ord         read (Ctx& c) { Ord o; int v = (int) std::stoll (c.tok ()); if (!c.describe) o.v = v; return o; }
    static void        write (Ctx& c, Ord o) { c.emit (std::to_string (o.v)); }
};

template <class T> struct Suffix;
template <> struct Suffix<float> { static const char* s () { return "f"; } };
template <> struct Suffix<double> { static const char* s () { return "d"; } };
template <> struct Suffix<short> { static const char* s () { return "s"; } };
template <> struct Suffix<int> { static const char* s () { return "i"; } };
template <> struct Suffix<int64_t> { static const char* s () { return "i64"; } };
template <> struct Suffix<unsigned char> { static const char* s () { return "c"; } };

static std::string* intern (const std::string& s)
{
    static std::vector<std::string*> pool;
    for (auto p : pool)
        if (*p == s) return p;
    pool.push_back (new std::string (s));
    return pool.back ();
}
#define NAME(expr) static const char* name () { return intern (expr)->c_str (); }

// ---- aggregates ---------------------------------------------------------------------------------------
template <class T> struct IO<Vec2<T>>
{
    NAME (std::string ("V2") + Suffix<T>::s ())
    static Vec2<T> read (Ctx& c) { T a = IO<T>::read (c), b = IO<T>::read (c); return Vec2<T> (a, b); }
    static void    write (Ctx& c, const Vec2<T>& v) { IO<T>::write (c, v.x); IO<T>::write (c, v.y); }
};
template <class T> struct IO<Vec3<T>>
{
    NAME (std::string ("V3") + Suffix<T>::s ())
    static Vec3<T> read (Ctx& c) { T a = IO<T>::read (c), b = IO<T>::read (c), d = IO<T>::read (c); return Vec3<T> (a, b, d); }
    static void    write (Ctx& c, const Vec3<T>& v) { IO<T>::write (c, v.x); IO<T>::write (c, v.y); IO<T>::write (c, v.z); }
};
template <class T> struct IO<Vec4<T>>
{
    NAME (std::string ("V4") + Suffix<T>::s ())
    static Vec4<T> read (Ctx& c)
    {
        T a = IO<T>::read (c), b = IO<T>::read (c), d = IO<T>::read (c), e = IO<T>::read (c);
        return Vec4<T> (a, b, d, e);
    }
    static void write (Ctx& c, const Vec4<T>& v) { IO<T>::write (c, v.x); IO<T>::write (c, v.y); IO<T>::write (c, v.z); IO<T>::write (c, v.w); }
};
template <class T> struct IO<Color3<T>>
{
    NAME (std::string ("Color3") + Suffix<T>::s ())
    static Color3<T> read (Ctx& c) { T a = IO<T>::read (c), b = IO<T>::read (c), d = IO<T>::read (c); return Color3<T> (a, b, d); }
    static void      write (Ctx& c, const Color3<T>& v) { IO<T>::write (c, v.x); IO<T>::write (c, v.y); IO<T>::write (c, v.z); }
};
template <class T> struct IO<Color4<T>>
{
    NAME (std::string ("Color4") + Suffix<T>::s ())
    static Color4<T> read (Ctx& c)
    {
        T a = IO<T>::read (c), b = IO<T>::read (c), d = IO<T>::read (c), e = IO<T>::read (c);
        return Color4<T> (a, b, d, e);
    }
    static void write (Ctx& c, const Color4<T>& v) { IO<T>::write (c, v.r); IO<T>::write (c, v.g); IO<T>::write (c, v.b); IO<T>::write (c, v.a); }
};
template <class T> struct IO<Matrix22<T>>
{
    NAME (std::string ("M22") + Suffix<T>::s ())
    static Matrix22<T> read (Ctx& c)
    {
        Matrix22<T> m;
        for (int i = 0; i < 2; ++i)
            for (int j = 0; j < 2; ++j)
                m[i][j] = IO<T>::read (c);
        if (c.describe) return Matrix22<T> ();      // identity: entries are evaluated once in describe mode
        return m;
    }
    static void write (Ctx& c, const Matrix22<T>& m)
    {
        for (int i = 0; i < 2; ++i)
            for (int j = 0; j < 2; ++j)
                IO<T>::write (c, m[i][j]);
    }
};
template <class T> struct IO<Matrix33<T>>
{
    NAME (std::string ("M33") + Suffix<T>::s ())
    static Matrix33<T> read (Ctx& c)
    {
        Matrix33<T> m;
        for (int i = 0; i < 3; ++i)
            for (int j = 0; j < 3; ++j)
                m[i][j] = IO<T>::read (c);
        if (c.describe) return Matrix33<T> ();      // identity: entries are evaluated once in describe mode
        return m;
    }
    static void write (Ctx& c, const Matrix33<T>& m)
    {
        for (int i = 0; i < 3; ++i)
            for (int j = 0; j < 3; ++j)
                IO<T>::write (c, m[i][j]);
    }
};
template <class T> struct IO<Matrix44<T>>
{
    NAME (std::string ("M44") + Suffix<T>::s ())
    static Matrix44<T> read (Ctx& c)
    {
        Matrix44<T> m;
        for (int i = 0; i < 4; ++i)
            for (int j = 0; j < 4; ++j)
                m[i][j] = IO<T>::read (c);
        if (c.describe) return Matrix44<T> ();      // identity: entries are evaluated once in describe mode
        return m;
    }
    static void write (Ctx& c, const Matrix44<T>& m)
    {
        for (int i = 0; i < 4; ++i)
            for (int j = 0; j < 4; ++j)
                IO<T>::write (c, m[i][j]);
    }
};
template <class T> struct IO<Quat<T>>
{
    NAME (std::string ("Quat") + Suffix<T>::s ())
    static Quat<T> read (Ctx& c)
    {
        T r = IO<T>::read (c), x = IO<T>::read (c), y = IO<T>::read (c), z = IO<T>::read (c);
        return Quat<T> (r, x, y, z);
    }
    static void write (Ctx& c, const Quat<T>& q) { IO<T>::write (c, q.r); IO<T>::write (c, q.v.x); IO<T>::write (c, q.v.y); IO<T>::write (c, q.v.z); }
};
template <class V> struct IO<Box<V>>
{
    NAME (std::string ("Box") + (IO<V>::name () + 1))
    static Box<V> read (Ctx& c) { V a = IO<V>::read (c); V b = IO<V>::read (c); return Box<V> (a, b); }
    static void   write (Ctx& c, const Box<V>& b) { IO<V>::write (c, b.min); IO<V>::write (c, b.max); }
};
template <class T> struct IO<Euler<T>>
{
    NAME (std::string ("Euler") + Suffix<T>::s ())
    static Euler<T> read (Ctx& c)
    {
        T   x = IO<T>::read (c), y = IO<T>::read (c), z = IO<T>::read (c);
        int o = IO<int>::read (c);
        if (c.describe) o = (int) Euler<T>::XYZ;
        return Euler<T> (x, y, z, (typename Euler<T>::Order) o);
    }
    static void write (Ctx& c, const Euler<T>& e)
    {
        IO<T>::write (c, e.x); IO<T>::write (c, e.y); IO<T>::write (c, e.z);
        IO<int>::write (c, (int) e.order ());
    }
};
template <class T> struct IO<Frustum<T>>
{
    NAME (std::string ("Frustum") + Suffix<T>::s ())
    static Frustum<T> read (Ctx& c)
    {
        T n = IO<T>::read (c), f = IO<T>::read (c), l = IO<T>::read (c), r = IO<T>::read (c), t = IO<T>::read (c), b = IO<T>::read (c);
        bool o = IO<bool>::read (c);
        if (c.describe) return Frustum<T> ();
        return Frustum<T> (n, f, l, r, t, b, o);
    }
    static void write (Ctx& c, const Frustum<T>& f)
    {
        IO<T>::write (c, f.nearPlane ()); IO<T>::write (c, f.farPlane ()); IO<T>::write (c, f.left ()); IO<T>::write (c, f.right ());
        IO<T>::write (c, f.top ()); IO<T>::write (c, f.bottom ()); IO<bool>::write (c, f.orthographic ());
    }
};
template <class T> struct IO<Line3<T>>
{
    NAME (std::string ("Line3") + Suffix<T>::s ())
    static Line3<T> read (Ctx& c)
    {
        Line3<T> l;
        l.pos = IO<Vec3<T>>::read (c);
        l.dir = IO<Vec3<T>>::read (c);
        return l;
    }
    static void write (Ctx& c, const Line3<T>& l) { IO<Vec3<T>>::write (c, l.pos); IO<Vec3<T>>::write (c, l.dir); }
};
template <class T> struct IO<Plane3<T>>
{
    NAME (std::string ("Plane3") + Suffix<T>::s ())
    static Plane3<T> read (Ctx& c)
    {
        Plane3<T> p;
        p.normal   = IO<Vec3<T>>::read (c);
        p.distance = IO<T>::read (c);
        return p;
    }
    static void write (Ctx& c, const Plane3<T>& p) { IO<Vec3<T>>::write (c, p.normal); IO<T>::write (c, p.distance); }
};
template <class T> struct IO<Shear6<T>>
{
    NAME (std::string ("Shear6") + Suffix<T>::s ())
    static Shear6<T> read (Ctx& c)
    {
        T v[6];
        for (int i = 0; i < 6; ++i) v[i] = IO<T>::read (c);
        return Shear6<T> (v[0], v[1], v[2], v[3], v[4], v[5]);
    }
    static void write (Ctx& c, const Shear6<T>& s)
    {
        for (int i = 0; i < 6; ++i) IO<T>::write (c, s[i]);
    }
};

template <class X> X Ctx::get ()
{
    if (describe) in_types.push_back (IO<X>::name ());
    return IO<X>::read (*this);
}
template <class X> void Ctx::put (const X& x)
{
    if (describe)
    {
        out_types.push_back (IO<X>::name ());
        return;
    }
    IO<X>::write (*this, x);
}

// ---- registry -----------------------------------------------------------------------------------------
struct Entry
{
    std::string                cls, method;
    std::function<void (Ctx&)> fn;
};
static std::vector<Entry> REG;
static void R (const std::string& cls, const std::string& method, std::function<void (Ctx&)> fn) { REG.push_back ({cls, method, fn}); }

#define G(X) c.get<X> ()
// `self op arg` families
#define BIN(cls, name, S, A, expr) R (cls, name, [] (Ctx& c) { S s = G (S); A a = G (A); (void) s; (void) a; c.put (expr); })
#define UN(cls, name, S, expr) R (cls, name, [] (Ctx& c) { S s = G (S); (void) s; c.put (expr); })
#define MUT(cls, name, S, stmt) R (cls, name, [] (Ctx& c) { S s = G (S); stmt; c.put (s); })
#define MUT1(cls, name, S, A, stmt) R (cls, name, [] (Ctx& c) { S s = G (S); A a = G (A); (void) a; stmt; c.put (s); })

template <class V, class T> static void vec_common (const std::string& cls, bool isfloat)
{
    BIN (cls, "dot", V, V, s.dot (a));
    BIN (cls, "__xor__", V, V, s ^ a);
    UN (cls, "length2", V, s.length2 ());
    BIN (cls, "__add__", V, V, s + a);
    BIN (cls, "__radd__", V, V, a + s);
    BIN (cls, "__sub__", V, V, s - a);
    BIN (cls, "__rsub__", V, V, a - s);
    BIN (cls, "__mul__", V, V, s * a);
    BIN (cls, "__mul__", V, T, s * a);
    BIN (cls, "__rmul__", V, T, a * s);
    BIN (cls, "__div__", V, V, s / a);
    BIN (cls, "__div__", V, T, s / a);
    BIN (cls, "__truediv__", V, V, s / a);
    BIN (cls, "__truediv__", V, T, s / a);
    UN (cls, "__neg__", V, -s);
    MUT (cls, "negate", V, s.negate ());
    MUT1 (cls, "__iadd__", V, V, s += a);
    MUT1 (cls, "__isub__", V, V, s -= a);
    MUT1 (cls, "__imul__", V, V, s *= a);
    MUT1 (cls, "__imul__", V, T, s *= a);
    MUT1 (cls, "__idiv__", V, V, s /= a);
    MUT1 (cls, "__idiv__", V, T, s /= a);
    MUT1 (cls, "__itruediv__", V, V, s /= a);
    MUT1 (cls, "__itruediv__", V, T, s /= a);
    BIN (cls, "__eq__", V, V, s == a);
    BIN (cls, "__ne__", V, V, s != a);
    R (cls, "equalWithAbsError", [] (Ctx& c) { V s = G (V); V a = G (V); T e = G (T); c.put (s.equalWithAbsError (a, e)); });
    R (cls, "equalWithRelError", [] (Ctx& c) { V s = G (V); V a = G (V); T e = G (T); c.put (s.equalWithRelError (a, e)); });
    // python: v + t, t + v, v - t, t - v, t / v broadcast the scalar to every component (no C++ operator of that shape:
    // the library expression they stand for is the component-wise operator on V(t))
    BIN (cls, "__add__", V, T, s + V (a));
    BIN (cls, "__radd__", V, T, V (a) + s);
    BIN (cls, "__sub__", V, T, s - V (a));
    BIN (cls, "__rsub__", V, T, V (a) - s);
    BIN (cls, "__rdiv__", V, T, V (a) / s);
    BIN (cls, "__rtruediv__", V, T, V (a) / s);
    (void) isfloat;
}
template <class V, class T> static void vec_float (const std::string& cls)
{
    UN (cls, "length", V, s.length ());
    UN (cls, "normalized", V, s.normalized ());
    UN (cls, "normalizedNonNull", V, s.normalizedNonNull ());
    UN (cls, "normalizedExc", V, s.normalizedExc ());          // throws std::domain_error on a null vector: the binding raises
    MUT (cls, "normalizeExc", V, s.normalizeExc ());
    MUT (cls, "normalize", V, s.normalize ());
    MUT (cls, "normalizeNonNull", V, s.normalizeNonNull ());
    // python: v.orthogonal(t) = orthogonal(v,t); v.reflect(t) = reflect(v,t); v.project(t) = project(t,v)
    // (the projection of v onto t)
    BIN (cls, "orthogonal", V, V, orthogonal (s, a));
    BIN (cls, "reflect", V, V, reflect (s, a));
    BIN (cls, "project", V, V, project (a, s));
}
template <class T> static void reg_vec (bool isfloat)
{
    typedef Vec2<T> V2;
    typedef Vec3<T> V3;
    typedef Vec4<T> V4;
    std::string c2 = IO<V2>::name (), c3 = IO<V3>::name (), c4 = IO<V4>::name ();
    R (c2, "__init__", [] (Ctx& c) { T a = G (T), b = G (T); c.put (V2 (a, b)); });
    R (c3, "__init__", [] (Ctx& c) { T a = G (T), b = G (T), d = G (T); c.put (V3 (a, b, d)); });
    R (c4, "__init__", [] (Ctx& c) { T a = G (T), b = G (T), d = G (T), e = G (T); c.put (V4 (a, b, d, e)); });
    R (c2, "__init__", [] (Ctx& c) { T a = G (T); c.put (V2 (a)); });
    R (c3, "__init__", [] (Ctx& c) { T a = G (T); c.put (V3 (a)); });
    R (c4, "__init__", [] (Ctx& c) { T a = G (T); c.put (V4 (a)); });
    vec_common<V2, T> (c2, isfloat);
    vec_common<V3, T> (c3, isfloat);
    vec_common<V4, T> (c4, isfloat);
    BIN (c2, "cross", V2, V2, s.cross (a));
    BIN (c2, "__mod__", V2, V2, s % a);
    BIN (c3, "cross", V3, V3, s.cross (a));
    BIN (c3, "__mod__", V3, V3, s % a);
    if (!isfloat)
    {
        R (c3, "closestVertex", [] (Ctx& c) { V3 p = G (V3), v0 = G (V3), v1 = G (V3), v2 = G (V3); c.put (closestVertex (v0, v1, v2, p)); });
        R (c2, "closestVertex", [] (Ctx& c) { V2 p = G (V2), v0 = G (V2), v1 = G (V2), v2 = G (V2); c.put (closestVertex (v0, v1, v2, p)); });
    }
    MUT1 (c3, "__imod__", V3, V3, s %= a);
}
template <class T> static void reg_vec_float ()
{
    typedef Vec2<T> V2;
    typedef Vec3<T> V3;
    typedef Vec4<T> V4;
    vec_float<V2, T> (IO<V2>::name ());
    vec_float<V3, T> (IO<V3>::name ());
    vec_float<V4, T> (IO<V4>::name ());
    std::string c2 = IO<V2>::name (), c3 = IO<V3>::name (), c4 = IO<V4>::name ();
    // python: p.closestVertex(v0,v1,v2) = closestVertex(v0,v1,v2,p)
    R (c3, "closestVertex", [] (Ctx& c) { V3 p = G (V3), v0 = G (V3), v1 = G (V3), v2 = G (V3); c.put (closestVertex (v0, v1, v2, p)); });
    R (c2, "closestVertex", [] (Ctx& c) { V2 p = G (V2), v0 = G (V2), v1 = G (V2), v2 = G (V2); c.put (closestVertex (v0, v1, v2, p)); });
    // vector * matrix (row vector, homogeneous divide for V2*M33 and V3*M44)
    BIN (c2, "__mul__", V2, Matrix22<T>, s * a);
    BIN (c2, "__mul__", V2, Matrix33<T>, s * a);
    BIN (c3, "__mul__", V3, Matrix33<T>, s * a);
    BIN (c3, "__mul__", V3, Matrix44<T>, s * a);
    BIN (c4, "__mul__", V4, Matrix44<T>, s * a);
    // mixed precision: Vec3<T> * Matrix44<S> (templated operator), e.g. V3dArray * M44f
    BIN (c3, "__mul__", V3, Matrix44<float>, s * a);
    BIN (c3, "__mul__", V3, Matrix44<double>, s * a);
    MUT1 (c3, "__imul__", V3, Matrix44<T>, s *= a);
    MUT1 (c3, "__imul__", V3, Matrix33<T>, s *= a);
    MUT1 (c4, "__imul__", V4, Matrix44<T>, s *= a);
    MUT1 (c2, "__imul__", V2, Matrix33<T>, s *= a);
}

template <class M, class T> static void mat_common (const std::string& cls)
{
    BIN (cls, "__add__", M, M, s + a);
    BIN (cls, "__sub__", M, M, s - a);
    BIN (cls, "__mul__", M, M, s * a);
    BIN (cls, "__rmul__", M, M, a * s);
    BIN (cls, "__mul__", M, T, s * a);
    BIN (cls, "__rmul__", M, T, a * s);
    BIN (cls, "__div__", M, T, s / a);
    BIN (cls, "__truediv__", M, T, s / a);
    UN (cls, "__neg__", M, -s);
    MUT (cls, "negate", M, s.negate ());
    MUT1 (cls, "__iadd__", M, M, s += a);
    MUT1 (cls, "__isub__", M, M, s -= a);
    MUT1 (cls, "__imul__", M, M, s *= a);
    MUT1 (cls, "__imul__", M, T, s *= a);
    MUT1 (cls, "__idiv__", M, T, s /= a);
    MUT1 (cls, "__itruediv__", M, T, s /= a);
    UN (cls, "transposed", M, s.transposed ());
    MUT (cls, "transpose", M, s.transpose ());
    UN (cls, "determinant", M, s.determinant ());
    BIN (cls, "__eq__", M, M, s == a);
    BIN (cls, "__ne__", M, M, s != a);
    R (cls, "equalWithAbsError", [] (Ctx& c) { M s = G (M); M a = G (M); T e = G (T); c.put (s.equalWithAbsError (a, e)); });
    R (cls, "equalWithRelError", [] (Ctx& c) { M s = G (M); M a = G (M); T e = G (T); c.put (s.equalWithRelError (a, e)); });
    MUT (cls, "makeIdentity", M, s.makeIdentity ());
}
template <class T> static void reg_mat ()
{
    typedef Matrix22<T> M2;
    typedef Matrix33<T> M3;
    typedef Matrix44<T> M4;
    typedef Vec2<T>     V2;
    typedef Vec3<T>     V3;
    std::string         c2 = IO<M2>::name (), c3 = IO<M3>::name (), c4 = IO<M4>::name ();
    R (c2, "__init__", [] (Ctx& c) { M2 m; for (int i = 0; i < 2; ++i) for (int j = 0; j < 2; ++j) m[i][j] = G (T); c.put (m); });
    R (c3, "__init__", [] (Ctx& c) { M3 m; for (int i = 0; i < 3; ++i) for (int j = 0; j < 3; ++j) m[i][j] = G (T); c.put (m); });
    R (c4, "__init__", [] (Ctx& c) { M4 m; for (int i = 0; i < 4; ++i) for (int j = 0; j < 4; ++j) m[i][j] = G (T); c.put (m); });
    mat_common<M2, T> (c2);
    mat_common<M3, T> (c3);
    mat_common<M4, T> (c4);
    // python inverse()/invert() (no argument): the bindings' default is singExc = true (a singular matrix raises)
    UN (c2, "inverse", M2, s.inverse (true));
    UN (c3, "inverse", M3, s.inverse (true));
    UN (c4, "inverse", M4, s.inverse (true));
    MUT (c2, "invert", M2, s.invert (true));
    MUT (c3, "invert", M3, s.invert (true));
    MUT (c4, "invert", M4, s.invert (true));
    // explicit singExc argument: inverse(False) is the C++ default (identity for a singular matrix), what the array loops use
    BIN (c2, "inverse", M2, bool, s.inverse (a));
    BIN (c3, "inverse", M3, bool, s.inverse (a));
    BIN (c4, "inverse", M4, bool, s.inverse (a));
    MUT1 (c2, "invert", M2, bool, s.invert (a));
    MUT1 (c3, "invert", M3, bool, s.invert (a));
    MUT1 (c4, "invert", M4, bool, s.invert (a));
    BIN (c3, "gjInverse", M3, bool, s.gjInverse (a));
    BIN (c4, "gjInverse", M4, bool, s.gjInverse (a));
    MUT1 (c3, "gjInvert", M3, bool, s.gjInvert (a));
    MUT1 (c4, "gjInvert", M4, bool, s.gjInvert (a));
    UN (c3, "gjInverse", M3, s.gjInverse (true));
    UN (c4, "gjInverse", M4, s.gjInverse (true));
    MUT (c3, "gjInvert", M3, s.gjInvert (true));
    MUT (c4, "gjInvert", M4, s.gjInvert (true));
    R (c3, "minorOf", [] (Ctx& c) { M3 s = G (M3); int i = G (int), j = G (int); c.put (s.minorOf (i, j)); });
    R (c4, "minorOf", [] (Ctx& c) { M4 s = G (M4); int i = G (int), j = G (int); c.put (s.minorOf (i, j)); });
    R (c3, "fastMinor", [] (Ctx& c) { M3 s = G (M3); int a = G (int), b = G (int), d = G (int), e = G (int); c.put (s.fastMinor (a, b, d, e)); });
    R (c4, "fastMinor", [] (Ctx& c) {
        M4  s = G (M4);
        int a = G (int), b = G (int), d = G (int), e = G (int), f = G (int), g = G (int);
        c.put (s.fastMinor (a, b, d, e, f, g));
    });
    // python: m.multDirMatrix(v) -> v', m.multVecMatrix(v) -> v'
    R (c4, "multDirMatrix", [] (Ctx& c) { M4 s = G (M4); V3 v = G (V3); V3 r; s.multDirMatrix (v, r); c.put (r); });
    R (c4, "multVecMatrix", [] (Ctx& c) { M4 s = G (M4); V3 v = G (V3); V3 r; s.multVecMatrix (v, r); c.put (r); });
    R (c3, "multDirMatrix", [] (Ctx& c) { M3 s = G (M3); V2 v = G (V2); V2 r; s.multDirMatrix (v, r); c.put (r); });
    R (c3, "multVecMatrix", [] (Ctx& c) { M3 s = G (M3); V2 v = G (V2); V2 r; s.multVecMatrix (v, r); c.put (r); });
    // the source vector may have the other precision (templated on the vector's element type)
    R (c4, "multDirMatrix", [] (Ctx& c) { M4 s = G (M4); Vec3<float> v = G (Vec3<float>); Vec3<float> r; s.multDirMatrix (v, r); c.put (r); });
    R (c4, "multDirMatrix", [] (Ctx& c) { M4 s = G (M4); Vec3<double> v = G (Vec3<double>); Vec3<double> r; s.multDirMatrix (v, r); c.put (r); });
    R (c4, "multVecMatrix", [] (Ctx& c) { M4 s = G (M4); Vec3<float> v = G (Vec3<float>); Vec3<float> r; s.multVecMatrix (v, r); c.put (r); });
    R (c4, "multVecMatrix", [] (Ctx& c) { M4 s = G (M4); Vec3<double> v = G (Vec3<double>); Vec3<double> r; s.multVecMatrix (v, r); c.put (r); });
    R (c3, "multDirMatrix", [] (Ctx& c) { M3 s = G (M3); Vec2<float> v = G (Vec2<float>); Vec2<float> r; s.multDirMatrix (v, r); c.put (r); });
    R (c3, "multDirMatrix", [] (Ctx& c) { M3 s = G (M3); Vec2<double> v = G (Vec2<double>); Vec2<double> r; s.multDirMatrix (v, r); c.put (r); });
    R (c3, "multVecMatrix", [] (Ctx& c) { M3 s = G (M3); Vec2<float> v = G (Vec2<float>); Vec2<float> r; s.multVecMatrix (v, r); c.put (r); });
    R (c3, "multVecMatrix", [] (Ctx& c) { M3 s = G (M3); Vec2<double> v = G (Vec2<double>); Vec2<double> r; s.multVecMatrix (v, r); c.put (r); });
    R (c2, "multDirMatrix", [] (Ctx& c) { M2 s = G (M2); Vec2<float> v = G (Vec2<float>); Vec2<float> r; s.multDirMatrix (v, r); c.put (r); });
    R (c2, "multDirMatrix", [] (Ctx& c) { M2 s = G (M2); Vec2<double> v = G (Vec2<double>); Vec2<double> r; s.multDirMatrix (v, r); c.put (r); });
    R (c4, "singularValueDecomposition", [] (Ctx& c) { M4 s = G (M4); bool fp = G (bool); M4 U, V; Vec4<T> S; jacobiSVD (s, U, S, V, std::numeric_limits<T>::epsilon (), fp); c.put (U); c.put (S); c.put (V); });
    R (c3, "singularValueDecomposition", [] (Ctx& c) { M3 s = G (M3); bool fp = G (bool); M3 U, V; Vec3<T> S; jacobiSVD (s, U, S, V, std::numeric_limits<T>::epsilon (), fp); c.put (U); c.put (S); c.put (V); });
    UN (c4, "translation", M4, s.translation ());
    UN (c3, "translation", M3, s.translation ());
    MUT1 (c4, "setTranslation", M4, V3, s.setTranslation (a));
    MUT1 (c4, "translate", M4, V3, s.translate (a));
    MUT1 (c4, "setScale", M4, V3, s.setScale (a));
    MUT1 (c4, "setScale", M4, T, s.setScale (a));
    MUT1 (c4, "scale", M4, V3, s.scale (a));
    MUT1 (c4, "setShear", M4, V3, s.setShear (a));
    // python: m.shear(V3 h) is m.shear(Shear6(h.x,h.y,h.z,0,0,0)) (equal to shear(Vec3) on finite values; on inf/nan/-0
    // entries the six-component form multiplies by the zero shears)
    MUT1 (c4, "shear", M4, V3, s.shear (Shear6<T> (a[0], a[1], a[2], T (0), T (0), T (0))));
    MUT1 (c4, "shear", M4, Shear6<T>, s.shear (a));
    MUT1 (c4, "setShear", M4, Shear6<T>, s.setShear (a));
    MUT1 (c4, "setEulerAngles", M4, V3, s.setEulerAngles (a));
    MUT1 (c4, "rotate", M4, V3, s.rotate (a));
    R (c4, "setAxisAngle", [] (Ctx& c) { M4 s = G (M4); V3 ax = G (V3); T an = G (T); s.setAxisAngle (ax, an); c.put (s); });
    MUT1 (c3, "setTranslation", M3, V2, s.setTranslation (a));
    MUT1 (c3, "translate", M3, V2, s.translate (a));
    MUT1 (c3, "setScale", M3, V2, s.setScale (a));
    MUT1 (c3, "scale", M3, V2, s.scale (a));
    MUT1 (c3, "setRotation", M3, T, s.setRotation (a));
    MUT1 (c3, "rotate", M3, T, s.rotate (a));
    UN (c4, "sansScaling", M4, sansScaling (s));
    UN (c4, "sansScalingAndShear", M4, sansScalingAndShear (s));
    UN (c3, "sansScaling", M3, sansScaling (s));
    UN (c3, "sansScalingAndShear", M3, sansScalingAndShear (s));
    R (c4, "extractEulerXYZ", [] (Ctx& c) { M4 s = G (M4); V3 r; extractEulerXYZ (s, r); c.put (r); });
    R (c4, "extractEulerZYX", [] (Ctx& c) { M4 s = G (M4); V3 r; extractEulerZYX (s, r); c.put (r); });
    R (c4, "extractScaling", [] (Ctx& c) { M4 s = G (M4); V3 r; extractScaling (s, r); c.put (r); });
    R (c4, "extractScalingAndShear", [] (Ctx& c) { M4 s = G (M4); V3 sc, sh; extractScalingAndShear (s, sc, sh); c.put (sc); c.put (sh); });
    // python: rotationMatrix(from,to) / rotationMatrixWithUpDir(from,to,up) are methods that overwrite self
    R (c4, "rotationMatrix", [] (Ctx& c) { M4 s = G (M4); V3 f = G (V3), t = G (V3); (void) s; c.put (rotationMatrix (f, t)); });
    R (c4, "rotationMatrixWithUpDir", [] (Ctx& c) { M4 s = G (M4); V3 f = G (V3), t = G (V3), u = G (V3); (void) s; c.put (rotationMatrixWithUpDir (f, t, u)); });
}

template <class T> static void reg_quat ()
{
    typedef Quat<T> Q;
    typedef Vec3<T> V3;
    std::string     cq = IO<Q>::name ();
    R (cq, "__init__", [] (Ctx& c) { T r = G (T), x = G (T), y = G (T), z = G (T); c.put (Q (r, x, y, z)); });
    R (cq, "__init__", [] (Ctx& c) { T r = G (T); V3 v = G (V3); c.put (Q (r, v)); });
    BIN (cq, "__mul__", Q, Q, s * a);
    BIN (cq, "__mul__", Q, T, s * a);
    BIN (cq, "__rmul__", Q, T, a * s);
    BIN (cq, "__div__", Q, Q, s / a);
    BIN (cq, "__div__", Q, T, s / a);
    BIN (cq, "__truediv__", Q, Q, s / a);
    BIN (cq, "__truediv__", Q, T, s / a);
    BIN (cq, "__add__", Q, Q, s + a);
    BIN (cq, "__sub__", Q, Q, s - a);
    BIN (cq, "__xor__", Q, Q, s ^ a);
    UN (cq, "__neg__", Q, -s);
    UN (cq, "__invert__", Q, ~s);
    MUT1 (cq, "__imul__", Q, Q, s *= a);
    MUT1 (cq, "__imul__", Q, T, s *= a);
    MUT1 (cq, "__idiv__", Q, Q, s /= a);
    MUT1 (cq, "__idiv__", Q, T, s /= a);
    MUT1 (cq, "__iadd__", Q, Q, s += a);
    MUT1 (cq, "__isub__", Q, Q, s -= a);
    UN (cq, "inverse", Q, s.inverse ());
    MUT (cq, "invert", Q, s.invert ());
    UN (cq, "normalized", Q, s.normalized ());
    MUT (cq, "normalize", Q, s.normalize ());
    UN (cq, "length", Q, s.length ());
    UN (cq, "angle", Q, s.angle ());
    UN (cq, "axis", Q, s.axis ());
    UN (cq, "toMatrix33", Q, s.toMatrix33 ());
    UN (cq, "toMatrix44", Q, s.toMatrix44 ());
    UN (cq, "log", Q, s.log ());
    UN (cq, "exp", Q, s.exp ());
    UN (cq, "r", Q, s.r);
    UN (cq, "v", Q, s.v);
    BIN (cq, "rotateVector", Q, V3, s.rotateVector (a));
    // python: v * q is v * q.toMatrix44() (rmulVec3; equal to the library's operator*(Vec3,Quat) up to rounding)
    BIN (cq, "__rmul__", Q, V3, a * s.toMatrix44 ());
    R (cq, "slerp", [] (Ctx& c) { Q s = G (Q), o = G (Q); T t = G (T); c.put (slerp (s, o, t)); });
    R (cq, "slerpShortestArc", [] (Ctx& c) { Q s = G (Q), o = G (Q); T t = G (T); c.put (slerpShortestArc (s, o, t)); });
    R (cq, "setAxisAngle", [] (Ctx& c) { Q s = G (Q); V3 ax = G (V3); T an = G (T); s.setAxisAngle (ax, an); c.put (s); });
    R (cq, "setRotation", [] (Ctx& c) { Q s = G (Q); V3 f = G (V3), t = G (V3); s.setRotation (f, t); c.put (s); });
    BIN (cq, "__eq__", Q, Q, s == a);
    BIN (cq, "__ne__", Q, Q, s != a);
    // python: q.extract(m44) sets q from the rotation matrix m
    R (cq, "extract", [] (Ctx& c) { Q s = G (Q); Matrix44<T> m = G (Matrix44<T>); (void) s; c.put (extractQuat (m)); });
}

template <class V, class T> static void reg_box_one ()
{
    typedef Box<V> B;
    std::string    cb = IO<B>::name ();
    R (cb, "__init__", [] (Ctx& c) { V a = G (V), b = G (V); c.put (B (a, b)); });
    R (cb, "__init__", [] (Ctx& c) { V a = G (V); c.put (B (a)); });
    MUT1 (cb, "extendBy", B, V, s.extendBy (a));
    MUT1 (cb, "extendBy", B, B, s.extendBy (a));
    BIN (cb, "intersects", B, V, s.intersects (a));
    BIN (cb, "intersects", B, B, s.intersects (a));
    UN (cb, "size", B, s.size ());
    UN (cb, "center", B, s.center ());
    UN (cb, "isEmpty", B, s.isEmpty ());
    UN (cb, "isInfinite", B, s.isInfinite ());
    UN (cb, "hasVolume", B, s.hasVolume ());
    UN (cb, "majorAxis", B, (int) s.majorAxis ());
    UN (cb, "min", B, s.min);
    UN (cb, "max", B, s.max);
    MUT (cb, "makeEmpty", B, s.makeEmpty ());
    MUT (cb, "makeInfinite", B, s.makeInfinite ());
    BIN (cb, "__eq__", B, B, s == a);
    BIN (cb, "__ne__", B, B, s != a);
}
template <class T> static void reg_box ()
{
    reg_box_one<Vec2<T>, T> ();
    reg_box_one<Vec3<T>, T> ();
}
template <class T> static void reg_box_transform ()
{
    typedef Box<Vec3<T>> B;
    std::string          cb = IO<B>::name ();
    // python: box * m44 = transform(box, m)
    BIN (cb, "__mul__", B, Matrix44<T>, transform (s, a));
    MUT1 (cb, "__imul__", B, Matrix44<T>, s = transform (s, a));
}

template <class C, class T> static void color_common (const std::string& cls)
{
    BIN (cls, "__add__", C, C, s + a);
    BIN (cls, "__sub__", C, C, s - a);
    BIN (cls, "__mul__", C, C, s * a);
    BIN (cls, "__mul__", C, T, s * a);
    BIN (cls, "__rmul__", C, T, s * a);
    BIN (cls, "__div__", C, C, s / a);
    BIN (cls, "__div__", C, T, s / a);
    BIN (cls, "__truediv__", C, C, s / a);
    BIN (cls, "__truediv__", C, T, s / a);
    UN (cls, "__neg__", C, -s);
    MUT (cls, "negate", C, s.negate ());
    MUT1 (cls, "__iadd__", C, C, s += a);
    MUT1 (cls, "__isub__", C, C, s -= a);
    MUT1 (cls, "__imul__", C, C, s *= a);
    MUT1 (cls, "__imul__", C, T, s *= a);
    MUT1 (cls, "__idiv__", C, C, s /= a);
    MUT1 (cls, "__idiv__", C, T, s /= a);
    BIN (cls, "__eq__", C, C, s == a);
    BIN (cls, "__ne__", C, C, s != a);
}
template <class T> static void reg_color ()
{
    typedef Color3<T> C3;
    typedef Color4<T> C4;
    std::string       c3 = IO<C3>::name (), c4 = IO<C4>::name ();
    R (c3, "__init__", [] (Ctx& c) { T a = G (T), b = G (T), d = G (T); c.put (C3 (a, b, d)); });
    R (c4, "__init__", [] (Ctx& c) { T a = G (T), b = G (T), d = G (T), e = G (T); c.put (C4 (a, b, d, e)); });
    color_common<C3, T> (c3);
    color_common<C4, T> (c4);
}
static void reg_color_float ()
{
    typedef Color3<float> C3;
    typedef Color4<float> C4;
    // python: c.rgb2hsv() / c.hsv2rgb() are methods returning the converted colour
    R ("Color3f", "__init__", [] (Ctx& c) { Vec3<float> v = G (Vec3<float>); c.put (C3 (v)); });
    R ("Color3f", "__init__", [] (Ctx& c) { Vec3<double> v = G (Vec3<double>); c.put (C3 (Vec3<float> (v))); });
    UN ("Color3f", "rgb2hsv", C3, C3 (rgb2hsv (Vec3<float> (s))));
    UN ("Color3f", "hsv2rgb", C3, C3 (hsv2rgb (Vec3<float> (s))));
    UN ("Color4f", "rgb2hsv", C4, rgb2hsv (s));
    UN ("Color4f", "hsv2rgb", C4, hsv2rgb (s));
}

template <class T> static void reg_euler ()
{
    typedef Euler<T> E;
    std::string      ce = IO<E>::name ();
    typedef typename E::Order EO;
    R (ce, "__init__", [] (Ctx& c) { Vec3<T> v = G (Vec3<T>); c.put (E (v)); });
    R (ce, "__init__", [] (Ctx& c) { Vec3<T> v = G (Vec3<T>); Ord o = G (Ord); c.put (E (v, (EO) o.v)); });
    R (ce, "__init__", [] (Ctx& c) { T x = G (T), y = G (T), z = G (T); Ord o = G (Ord); c.put (E (x, y, z, (EO) o.v)); });
    R (ce, "__init__", [] (Ctx& c) { Matrix33<T> m = G (Matrix33<T>); c.put (E (m)); });
    R (ce, "__init__", [] (Ctx& c) { Matrix44<T> m = G (Matrix44<T>); c.put (E (m)); });
    R (ce, "__init__", [] (Ctx& c) { Quat<T> q = G (Quat<T>); E e; e.extract (q); c.put (e); });
    R (std::string ("Quat") + Suffix<T>::s (), "__init__", [] (Ctx& c) { E e = G (E); c.put (e.toQuat ()); });
    UN (ce, "toMatrix33", E, s.toMatrix33 ());
    UN (ce, "toMatrix44", E, s.toMatrix44 ());
    UN (ce, "toQuat", E, s.toQuat ());
    UN (ce, "toXYZVector", E, s.toXYZVector ());
    UN (ce, "order", E, (int) s.order ());
    UN (ce, "frameStatic", E, s.frameStatic ());
    UN (ce, "initialRepeated", E, s.initialRepeated ());
    UN (ce, "parityEven", E, s.parityEven ());
    MUT1 (ce, "extract", E, Matrix33<T>, s.extract (a));
    MUT1 (ce, "extract", E, Matrix44<T>, s.extract (a));
    MUT1 (ce, "extract", E, Quat<T>, s.extract (a));
    MUT1 (ce, "setXYZVector", E, Vec3<T>, s.setXYZVector (a));
    MUT1 (ce, "makeNear", E, E, s.makeNear (a));
    BIN (ce, "__eq__", E, E, s == a);
    BIN (ce, "__ne__", E, E, s != a);
}

template <class T> static void reg_frustum ()
{
    typedef Frustum<T> F;
    typedef Vec3<T>    V3;
    typedef Vec2<T>    V2;
    std::string        cf = IO<F>::name ();
    R (cf, "__init__", [] (Ctx& c) {
        T    n = G (T), f = G (T), l = G (T), r = G (T), t = G (T), b = G (T);
        bool o = G (bool);
        c.put (F (n, f, l, r, t, b, o));
    });
    // Frustum(nearPlane, farPlane, fovx, fovy, aspect)
    R (cf, "__init__", [] (Ctx& c) { T n = G (T), f = G (T), fx = G (T), fy = G (T), a = G (T); c.put (F (n, f, fx, fy, a)); });
    UN (cf, "projectionMatrix", F, s.projectionMatrix ());
    UN (cf, "fovx", F, s.fovx ());
    UN (cf, "fovy", F, s.fovy ());
    UN (cf, "aspect", F, s.aspect ());
    UN (cf, "nearPlane", F, s.nearPlane ());
    UN (cf, "farPlane", F, s.farPlane ());
    UN (cf, "near", F, s.nearPlane ());
    UN (cf, "far", F, s.farPlane ());
    UN (cf, "left", F, s.left ());
    UN (cf, "right", F, s.right ());
    UN (cf, "top", F, s.top ());
    UN (cf, "bottom", F, s.bottom ());
    UN (cf, "orthographic", F, s.orthographic ());
    BIN (cf, "projectScreenToRay", F, V2, s.projectScreenToRay (a));
    BIN (cf, "projectPointToScreen", F, V3, s.projectPointToScreen (a));
    R (cf, "ZToDepth", [] (Ctx& c) { F s = G (F); long z = (long) G (int), zmin = (long) G (int), zmax = (long) G (int); c.put (s.ZToDepth (z, zmin, zmax)); });
    BIN (cf, "normalizedZToDepth", F, T, s.normalizedZToDepth (a));
    R (cf, "DepthToZ", [] (Ctx& c) { F s = G (F); T d = G (T); long zmin = (long) G (int), zmax = (long) G (int); c.put ((int64_t) s.DepthToZ (d, zmin, zmax)); });
    R (cf, "worldRadius", [] (Ctx& c) { F s = G (F); V3 p = G (V3); T r = G (T); c.put (s.worldRadius (p, r)); });
    R (cf, "screenRadius", [] (Ctx& c) { F s = G (F); V3 p = G (V3); T r = G (T); c.put (s.screenRadius (p, r)); });
    R (cf, "modifyNearAndFar", [] (Ctx& c) { F s = G (F); T n = G (T), f = G (T); s.modifyNearAndFar (n, f); c.put (s); });
    // FrustumTest(frustum, cameraMatrix).isVisible(point) / (box), completelyContains(box): the python class has no
    // accessor, so the entry takes the constructor arguments
    std::string ct = std::string ("FrustumTest") + Suffix<T>::s ();
    R (ct, "isVisible", [] (Ctx& c) { F f = G (F); Matrix44<T> m = G (Matrix44<T>); V3 p = G (V3); FrustumTest<T> ft (f, m); c.put (ft.isVisible (p)); });
    R (ct, "isVisible", [] (Ctx& c) { F f = G (F); Matrix44<T> m = G (Matrix44<T>); Box<V3> b = G (Box<V3>); FrustumTest<T> ft (f, m); c.put (ft.isVisible (b)); });
    R (ct, "completelyContains", [] (Ctx& c) { F f = G (F); Matrix44<T> m = G (Matrix44<T>); Box<V3> b = G (Box<V3>); FrustumTest<T> ft (f, m); c.put (ft.completelyContains (b)); });
}

template <class T> static void reg_line_plane ()
{
    typedef Line3<T>  L;
    typedef Plane3<T> P;
    typedef Vec3<T>   V3;
    std::string       cl = IO<L>::name (), cp = IO<P>::name ();
    R (cl, "__init__", [] (Ctx& c) { V3 a = G (V3), b = G (V3); c.put (L (a, b)); });
    BIN (cl, "pointAt", L, T, s (a));
    BIN (cl, "distanceTo", L, V3, s.distanceTo (a));
    BIN (cl, "distanceTo", L, L, s.distanceTo (a));
    BIN (cl, "closestPointTo", L, V3, s.closestPointTo (a));
    BIN (cl, "closestPointTo", L, L, s.closestPointTo (a));
    BIN (cl, "__mul__", L, Matrix44<T>, s * a);
    R (cp, "__init__", [] (Ctx& c) { V3 n = G (V3); T d = G (T); c.put (P (n, d)); });
    R (cp, "__init__", [] (Ctx& c) { V3 p = G (V3), n = G (V3); c.put (P (p, n)); });
    R (cp, "__init__", [] (Ctx& c) { V3 a = G (V3), b = G (V3), d = G (V3); c.put (P (a, b, d)); });
    BIN (cp, "distanceTo", P, V3, s.distanceTo (a));
    BIN (cp, "reflectPoint", P, V3, s.reflectPoint (a));
    BIN (cp, "reflectVector", P, V3, s.reflectVector (a));
    UN (cp, "__neg__", P, -s);
    BIN (cp, "__mul__", P, Matrix44<T>, s * a);
}

template <class T> static void reg_shear ()
{
    typedef Shear6<T> S;
    std::string       cs = IO<S>::name ();
    R (cs, "__init__", [] (Ctx& c) { T a = G (T), b = G (T), d = G (T), e = G (T), f = G (T), g = G (T); c.put (S (a, b, d, e, f, g)); });
    R (cs, "__init__", [] (Ctx& c) { T a = G (T), b = G (T), d = G (T); c.put (S (a, b, d)); });
    BIN (cs, "__add__", S, S, s + a);
    BIN (cs, "__sub__", S, S, s - a);
    BIN (cs, "__mul__", S, S, s * a);
    BIN (cs, "__mul__", S, T, s * a);
    BIN (cs, "__rmul__", S, T, a * s);
    BIN (cs, "__div__", S, S, s / a);
    BIN (cs, "__div__", S, T, s / a);
    BIN (cs, "__truediv__", S, S, s / a);
    BIN (cs, "__truediv__", S, T, s / a);
    UN (cs, "__neg__", S, -s);
    MUT (cs, "negate", S, s.negate ());
    MUT1 (cs, "__iadd__", S, S, s += a);
    MUT1 (cs, "__isub__", S, S, s -= a);
    MUT1 (cs, "__imul__", S, S, s *= a);
    MUT1 (cs, "__imul__", S, T, s *= a);
    MUT1 (cs, "__idiv__", S, S, s /= a);
    MUT1 (cs, "__idiv__", S, T, s /= a);
    BIN (cs, "__eq__", S, S, s == a);
    BIN (cs, "__ne__", S, S, s != a);
    R (cs, "equalWithAbsError", [] (Ctx& c) { S s = G (S); S a = G (S); T e = G (T); c.put (s.equalWithAbsError (a, e)); });
    R (cs, "equalWithRelError", [] (Ctx& c) { S s = G (S); S a = G (S); T e = G (T); c.put (s.equalWithRelError (a, e)); });
}

template <class T> static void reg_fun_fp ()
{
    // python floats select the `double` overloads, python ints the `int` overloads: only those are reachable
    // from scalars (memory: the float overloads are shadowed)
    R ("imath", "abs", [] (Ctx& c) { T a = G (T); c.put (IMATH_INTERNAL_NAMESPACE::abs (a)); });
    R ("imath", "sign", [] (Ctx& c) { T a = G (T); c.put ((T) sign (a)); });      // the binding returns the argument's type
    R ("imath", "lerp", [] (Ctx& c) { T a = G (T), b = G (T), t = G (T); c.put (lerp (a, b, t)); });
    R ("imath", "lerpfactor", [] (Ctx& c) { T m = G (T), a = G (T), b = G (T); c.put (lerpfactor (m, a, b)); });
    R ("imath", "clamp", [] (Ctx& c) { T a = G (T), l = G (T), h = G (T); c.put (clamp (a, l, h)); });
    R ("imath", "floor", [] (Ctx& c) { T a = G (T); c.put (IMATH_INTERNAL_NAMESPACE::floor (a)); });
    R ("imath", "ceil", [] (Ctx& c) { T a = G (T); c.put (IMATH_INTERNAL_NAMESPACE::ceil (a)); });
    R ("imath", "trunc", [] (Ctx& c) { T a = G (T); c.put (IMATH_INTERNAL_NAMESPACE::trunc (a)); });
    R ("imath", "cmp", [] (Ctx& c) { T a = G (T), b = G (T); c.put (cmp (a, b)); });
    R ("imath", "cmpt", [] (Ctx& c) { T a = G (T), b = G (T), t = G (T); c.put (cmpt (a, b, t)); });
    R ("imath", "iszero", [] (Ctx& c) { T a = G (T), t = G (T); c.put (iszero (a, t)); });
    R ("imath", "equal", [] (Ctx& c) { T a = G (T), b = G (T), t = G (T); c.put (equal (a, b, t)); });
#define STD1(n) R ("imath", #n, [] (Ctx& c) { T a = G (T); c.put ((T) std::n (a)); })
    STD1 (sin); STD1 (cos); STD1 (tan); STD1 (asin); STD1 (acos); STD1 (atan); STD1 (sqrt); STD1 (exp); STD1 (log); STD1 (log10);
    STD1 (sinh); STD1 (cosh);
    R ("imath", "atan2", [] (Ctx& c) { T y = G (T), x = G (T); c.put ((T) std::atan2 (y, x)); });
    R ("imath", "pow", [] (Ctx& c) { T x = G (T), y = G (T); c.put ((T) std::pow (x, y)); });
}
static void reg_fun_int ()
{
    R ("imath", "abs", [] (Ctx& c) { int a = G (int); c.put (IMATH_INTERNAL_NAMESPACE::abs (a)); });
    R ("imath", "sign", [] (Ctx& c) { int a = G (int); c.put (sign (a)); });
    R ("imath", "clamp", [] (Ctx& c) { int a = G (int), l = G (int), h = G (int); c.put (clamp (a, l, h)); });
    R ("imath", "divs", [] (Ctx& c) { int a = G (int), b = G (int); c.put (divs (a, b)); });
    R ("imath", "mods", [] (Ctx& c) { int a = G (int), b = G (int); c.put (mods (a, b)); });
    R ("imath", "divp", [] (Ctx& c) { int a = G (int), b = G (int); c.put (divp (a, b)); });
    R ("imath", "modp", [] (Ctx& c) { int a = G (int), b = G (int); c.put (modp (a, b)); });
    // python: hsv2rgb / rgb2hsv as module functions on V3f / V3d values
    R ("imath", "rgb2hsv", [] (Ctx& c) { Vec3<float> a = G (Vec3<float>); c.put (rgb2hsv (a)); });
    R ("imath", "hsv2rgb", [] (Ctx& c) { Vec3<float> a = G (Vec3<float>); c.put (hsv2rgb (a)); });
    R ("imath", "rgb2hsv", [] (Ctx& c) { Vec3<double> a = G (Vec3<double>); c.put (rgb2hsv (a)); });
    R ("imath", "hsv2rgb", [] (Ctx& c) { Vec3<double> a = G (Vec3<double>); c.put (hsv2rgb (a)); });
    R ("imath", "rotationXYZWithUpDir", [] (Ctx& c) {
        Vec3<float> f = G (Vec3<float>), t = G (Vec3<float>), u = G (Vec3<float>);
        Vec3<float> r;
        extractEulerXYZ (rotationMatrixWithUpDir (f, t, u), r);
        c.put (r);
    });
}

static void reg_all ()
{
    reg_vec<short> (false);
    reg_vec<int> (false);
    reg_vec<int64_t> (false);
    reg_vec<float> (true);
    reg_vec<double> (true);
    reg_vec_float<float> ();
    reg_vec_float<double> ();
    {
        typedef Vec3<unsigned char> V3c;
        typedef Vec4<unsigned char> V4c;
        typedef unsigned char       T;
        R ("V3c", "__init__", [] (Ctx& c) { T a = G (T), b = G (T), d = G (T); c.put (V3c (a, b, d)); });
        R ("V4c", "__init__", [] (Ctx& c) { T a = G (T), b = G (T), d = G (T), e = G (T); c.put (V4c (a, b, d, e)); });
        BIN ("V3c", "dot", V3c, V3c, s.dot (a));
        BIN ("V3c", "cross", V3c, V3c, s.cross (a));
        BIN ("V4c", "dot", V4c, V4c, s.dot (a));
        BIN ("V3c", "__add__", V3c, V3c, s + a);
        BIN ("V3c", "__sub__", V3c, V3c, s - a);
        BIN ("V3c", "__mul__", V3c, V3c, s * a);
        BIN ("V4c", "__add__", V4c, V4c, s + a);
        BIN ("V4c", "__sub__", V4c, V4c, s - a);
        BIN ("V4c", "__mul__", V4c, V4c, s * a);
        UN ("V3c", "length2", V3c, s.length2 ());
        UN ("V4c", "length2", V4c, s.length2 ());
        BIN ("V3c", "__eq__", V3c, V3c, s == a);
        BIN ("V4c", "__eq__", V4c, V4c, s == a);
        BIN ("V3c", "__ne__", V3c, V3c, s != a);
        BIN ("V4c", "__ne__", V4c, V4c, s != a);
        BIN ("V3c", "__div__", V3c, V3c, s / a);
        BIN ("V4c", "__div__", V4c, V4c, s / a);
        BIN ("V3c", "__mul__", V3c, T, s * a);
        BIN ("V4c", "__mul__", V4c, T, s * a);
        UN ("V3c", "__neg__", V3c, -s);
        UN ("V4c", "__neg__", V4c, -s);
    }
    reg_shear<float> ();
    reg_shear<double> ();
    reg_mat<float> ();
    reg_mat<double> ();
    reg_quat<float> ();
    reg_quat<double> ();
    reg_box<short> ();
    reg_box<int> ();
    reg_box<int64_t> ();
    reg_box<float> ();
    reg_box<double> ();
    reg_box_transform<float> ();
    reg_box_transform<double> ();
    reg_color<float> ();
    reg_color<unsigned char> ();
    reg_color_float ();
    reg_euler<float> ();
    reg_euler<double> ();
    reg_frustum<float> ();
    reg_frustum<double> ();
    reg_line_plane<float> ();
    reg_line_plane<double> ();
    reg_fun_fp<double> ();
    reg_fun_fp<float> ();       // the float overloads are reachable only through FloatArray arguments: 1-element arrays
    reg_fun_int ();
}

int main (int argc, char** argv)
{
    reg_all ();
    std::string mode = argc > 1 ? argv[1] : "list";
    if (mode == "list")
    {
        for (size_t i = 0; i < REG.size (); ++i)
        {
            Ctx c;
            c.describe = true;
            try
            {
                REG[i].fn (c);
            }
            catch (std::exception& e)
            {
                std::fprintf (stderr, "describe %s.%s: %s\n", REG[i].cls.c_str (), REG[i].method.c_str (), e.what ());
                return 2;
            }
            std::printf ("%zu %s %s", i, REG[i].cls.c_str (), REG[i].method.c_str ());
            for (auto& t : c.in_types) std::printf (" %s", t.c_str ());
            std::printf (" ->");
            for (auto& t : c.out_types) std::printf (" %s", t.c_str ());
            std::printf ("\n");
        }
        return 0;
    }
    std::string line;
    while (std::getline (std::cin, line))
    {
        std::istringstream is (line);
        Ctx                c;
        std::string        t;
        while (is >> t) c.toks.push_back (t);
        if (c.toks.empty ()) continue;
        try
        {
            size_t idx = (size_t) std::stoul (c.tok ());
            if (idx >= REG.size ()) throw std::runtime_error ("bad index");
            REG[idx].fn (c);
            std::printf ("ok %s\n", c.out.c_str ());
        }
        catch (std::exception& e)
        {
            std::printf ("raise %s\n", e.what ());
        }
    }
    return 0;
}
