#!/usr/bin/env python3
"""C19 harness: executes op lines (the protocol of lean/Driver/FixedArray.lean)

  --mode real [--cls IntArray]   against the REAL imath module (run under tools.pyimath.PYTHON + env())
  --mode spec                    against plain Python lists (the specification: CPython's own list /
                                 slice semantics; views are (shared base list, selected indices))
  --mode classes                 list the FixedArray classes of the module with their capabilities (JSON)

and prints one canonical line per op: `<res>;<dump>`.
`<res>` = ok | int n | new id | str s | err <PyClass>:<kind>;  dump = every live 1-D array as w[..]/r[..].
In spec mode a line is prefixed `alias ` when the operation reads from the buffer it writes (outside the
property's quantifier: list semantics evaluate the right-hand side first)."""
import sys, json, argparse, re


# ----------------------------------------------------------------------------------------------
# parsing

def p_opt(s):
    return None if s == "N" else int(s)


def p_idx(s):
    t = s.split(":")
    if t[0] == "i":
        return int(t[1])
    return slice(p_opt(t[1]), p_opt(t[2]), p_opt(t[3]))


def p_vals(s):
    return [] if s == "-" else [int(x) for x in s.split(",")]


def show(l):
    return "[" + ",".join(str(x) for x in l) + "]"


ERR_TABLE = [
    ("IndexError", "Index out of range", "indexError"),
    ("IndexError", "Dimensions of source do not match destination", "srcDimMismatch"),
    ("IndexError", "Dimensions of source data do not match destination", "srcDimMismatch"),
    ("ValueError", "read-only", "readOnly"),
    ("ValueError", "either masked or unmasked", "maskDataMismatch"),
    ("ValueError", "Dimensions of source do not match destination", "dimMismatch"),
    ("ValueError", "Masking an already-masked", "maskedMask"),
    ("ValueError", "We don't support setting item masks", "maskedSetMask"),
    ("ValueError", "slice step cannot be zero", "stepZero"),
    ("RuntimeError", "Slice extraction produced invalid", "domainError"),
    ("ValueError", "length of data does not match length of array element", "rowLenMismatch"),
    ("ValueError", "Dimensions of mask do not match array", "dimMismatch"),
    ("TypeError", "Object is not a slice", "notASlice"),
    ("ValueError", "tuple of length", "tupleLen"),
]


def canon_exc(e):
    cls, msg = type(e).__name__, str(e)
    for c, frag, kind in ERR_TABLE:
        if c == cls and frag in msg:
            return "err %s:%s" % (cls, kind)
    if cls == "ArgumentError":          # Boost.Python overload resolution failed: argument classes do not fit
        return "err ArgumentError:signature"
    return "err %s:%s" % (cls, re.sub(r"\s+", "_", msg)[:80])


class BadRef(Exception):
    pass


# ----------------------------------------------------------------------------------------------
# element encodings for the real module

def make_codec(imath, clsname):
    """(enc, dec, info) for the element type of array class `clsname`: enc(int)->element, dec(element)->int,
    dec(enc(x)) == x, and enc(a)+enc(b) == enc(a+b) where the type has +."""
    base = clsname[:-5]
    scal = {"Int": int, "Float": float, "Double": float, "Short": int, "SignedChar": int, "UnsignedChar": int,
            "UnsignedShort": int, "UnsignedInt": int, "Bool": bool}
    if base in scal:
        f = scal[base]
        return (lambda x: f(x)), (lambda e: int(e)), {"kind": "scalar"}
    el = getattr(imath, base, None)
    if el is None and re.match(r"^C[34][cf]$", base):
        el = getattr(imath, "Color" + base[1:], None)      # C3cArray holds Color3c
    if el is None:
        return None
    cands = []
    m = re.match(r"^V([234])", base)
    if m:
        n = int(m.group(1))
        cands.append((lambda x: el(*[(k + 1) * x for k in range(n)]),
                      lambda e: int(e[0]) if all(e[k] == (k + 1) * e[0] for k in range(n)) else "BAD"))
    if base.startswith("Box"):
        vname = "V" + base[3:]
        V = getattr(imath, vname)
        n = int(base[3])
        cands.append((lambda x: el(V(*[x] * n), V(*[x + 1] * n)),
                      lambda e: int(e.min()[0]) if all(e.max()[k] == e.min()[0] + 1 for k in range(n)) else "BAD"))
    if base.startswith("C3") or base.startswith("C4"):
        n = int(base[1])
        cands.append((lambda x: el(*[x] * n), lambda e: int(e[0]) if all(e[k] == e[0] for k in range(n)) else "BAD"))
    if base.startswith("Euler"):
        cands.append((lambda x: el(x, 2 * x, 3 * x), lambda e: int(e[0]) if (e[1] == 2 * e[0] and e[2] == 3 * e[0]) else "BAD"))
    if base.startswith("Quat"):
        cands.append((lambda x: el(x, 2 * x, 3 * x, 4 * x),
                      lambda e: int(e.r()) if (e.v()[0] == 2 * e.r() and e.v()[2] == 4 * e.r()) else "BAD"))
    m = re.match(r"^M(\d)\d", base)
    if m:
        n = int(m.group(1))
        cands.append((lambda x: el(*[(k + 1) * x for k in range(n * n)]),
                      lambda e: int(e[0][0]) if e[n - 1][n - 1] == n * n * e[0][0] else "BAD"))
    for enc, dec in cands:
        try:
            if dec(enc(7)) == 7 and dec(enc(0)) == 0:
                return enc, dec, {"kind": "class"}
        except Exception:
            continue
    return None


COMP_SETS = [("x", "y", "z", "w"), ("x", "y", "z"), ("x", "y"), ("r", "g", "b", "a"), ("r", "g", "b"), ("r", "x", "y", "z"), ("min", "max")]


def comp_info(imath, clsname):
    """component-array properties of a vector array class (`.x .y ..`, `.r .g ..`, quaternion `.r .x .y .z`,
    box `.min .max`), by introspection: None, or {names, w, make(cells)->element, first(element)->int,
    cenc(int)->component value, cdec(component value)->int, ccls: component array class name}"""
    c = getattr(imath, clsname, None)
    if c is None or not clsname.endswith("Array"):
        return None
    base = clsname[:-5]
    el = getattr(imath, base, None)
    if el is None and re.match(r"^C[34][cf]$", base):
        el = getattr(imath, "Color" + base[1:], None)
    if el is None:
        return None
    names = None
    try:
        probe = c(1)
    except Exception:
        return None
    for cs in COMP_SETS:
        try:
            if all(hasattr(probe, n) for n in cs):
                # the widest set wins, but `.r` of a colour array must not be mistaken for a quaternion
                if cs == ("r", "x", "y", "z") and not base.startswith("Quat"):
                    continue
                if cs[0] == "x" and base.startswith("Quat"):
                    continue
                names = cs
                break
        except TypeError:       # e.g. V2i64Array.x: the component array type has no Python class
            return None
    if names is None:
        return None
    w = len(names)
    try:
        ccls = type(getattr(probe, names[0])).__name__
    except Exception:
        return None
    if base.startswith("Box"):
        vcd = make_codec(imath, ccls)
        if vcd is None:
            return None
        venc, vdec, _ = vcd
        make = lambda cells: el(venc(cells[0]), venc(cells[1]))
        first = lambda e: vdec(e.min())
        return {"names": names, "w": w, "make": make, "first": first, "cenc": venc, "cdec": vdec, "ccls": ccls}
    isf = ccls in ("FloatArray", "DoubleArray")
    cenc = (lambda x: float(x)) if isf else (lambda x: int(x))
    cdec = lambda x: int(x)
    if base.startswith("Quat"):
        make = lambda cells: el(cenc(cells[0]), cenc(cells[1]), cenc(cells[2]), cenc(cells[3]))
        first = lambda e: int(e.r())
    else:
        make = lambda cells: el(*[cenc(x) for x in cells])
        first = lambda e: int(e[0])
    try:
        e = make(list(range(1, w + 1)))
        a = c(1); a[0] = e
        if first(a[0]) != 1 or cdec(getattr(a, names[w - 1])[0]) != w:
            return None
    except Exception:
        return None
    return {"names": names, "w": w, "make": make, "first": first, "cenc": cenc, "cdec": cdec, "ccls": ccls}


def elem_attr_writable(imath, clsname, ci):
    """can `e = a[i]; e.<name> = value` be used on this class (vector / colour elements: yes; quaternion `.r` is fine too)"""
    try:
        a = getattr(imath, clsname)(1)
        a[0] = ci["make"](list(range(1, ci["w"] + 1)))
        e = a[0]
        setattr(e, ci["names"][ci["w"] - 1], ci["cenc"](9))
        return ci["cdec"](getattr(a, ci["names"][ci["w"] - 1])[0]) == 9
    except Exception:
        return False


def array_classes(imath):
    """FixedArray classes by introspection: __getitem__/__len__, name ends in Array, and the generic
    FixedArray protocol (makeReadOnly/writable/ifelse)."""
    out = []
    for n in sorted(dir(imath)):
        c = getattr(imath, n)
        if n.endswith("Array") and hasattr(c, "__getitem__") and hasattr(c, "__len__"):
            out.append(n)
    return out


# ----------------------------------------------------------------------------------------------
# real executor

class RealExec:
    def __init__(self, clsname):
        import imath
        self.imath = imath
        self.clsname = clsname
        self.cls = getattr(imath, clsname)
        cd = make_codec(imath, clsname)
        if cd is None:
            raise SystemExit("no codec for " + clsname)
        self.enc, self.dec, _ = cd
        self.conv = convert_target(imath, clsname)
        self.comp = comp_info(imath, clsname)
        self.reset()

    def reset(self):
        self.objs = []     # (array, decoder)
        self.encs = {}     # view id -> encoder, for views whose elements are not of the class under test
        self.d2 = []
        self.mats = []
        self.strs = None
        self.vas = []
        self.sas = {}

    def ref(self, s):
        i = int(s)
        if i < 0 or i >= len(self.objs):
            raise BadRef()
        return self.objs[i][0]

    # ---- FixedVArray: the class whose ROWS are arrays of the class under test (IntArray -> VIntArray, ...)
    VCLS = {"IntArray": "VIntArray", "FloatArray": "VFloatArray", "V2iArray": "VV2iArray", "V2fArray": "VV2fArray"}

    def rv(self, s):
        i = int(s)
        if i < 0 or i >= len(self.vas):
            raise BadRef()
        return self.vas[i]

    def newv(self, a):
        self.vas.append(a)
        return "new %d" % (len(self.vas) - 1)

    def dumpv(self, a):
        rows = []
        for i in range(len(a)):
            r = a[i]
            rows.append(show([self.dec(r[j]) for j in range(len(r))]))
        return ("w" if a.writable() else "r") + "[" + ",".join(rows) + "]"

    def runv(self, t):
        im = self.imath
        V = getattr(im, self.VCLS.get(self.clsname, "VIntArray"))
        op = t[0]
        if op == "new":
            return self.newv(V(int(t[1])))
        if op == "newfill":
            return self.newv(V(self.enc(int(t[1])), int(t[2])))
        if op == "newsizes":
            return self.newv(V(self.ref(t[1]), self.enc(int(t[2]))))
        a = self.rv(t[1])
        if op == "copy":
            return self.newv(V(a))
        if op == "len":
            return "int %d" % len(a)
        if op == "row":
            r = a[int(t[2])]
            return "row " + show([self.dec(r[j]) for j in range(len(r))])
        if op == "setelem":
            a[int(t[2])][int(t[3])] = self.enc(int(t[4]))
            return "ok"
        if op == "getslice":
            return self.newv(a[p_idx(t[2])])
        if op == "getmask":
            return self.newv(a[self.ref(t[2])])
        if op == "setrow":
            a[p_idx(t[2])] = self.ref(t[3])
            return "ok"
        if op == "setrowmask":
            a[self.ref(t[2])] = self.ref(t[3])
            return "ok"
        if op == "setvec":
            a[p_idx(t[2])] = self.rv(t[3])
            return "ok"
        if op == "setvecmask":
            a[self.ref(t[2])] = self.rv(t[3])
            return "ok"
        if op == "ro":
            a.makeReadOnly()
            return "ok"
        if op == "size":
            r = a.size[int(t[2])]
            return "int %d" % r if isinstance(r, int) else "arr " + show([int(r[j]) for j in range(len(r))])
        if op == "sizeslice":
            return self.new(a.size[p_idx(t[2])], int)
        if op == "sizemask":
            return self.new(a.size[self.ref(t[2])], int)
        if op in ("setsize", "setsizemask", "setsizevec", "setsizevecmask"):
            before = [len(a[i]) for i in range(len(a))]
            try:
                if op == "setsize":
                    a.size[p_idx(t[2])] = int(t[3])
                elif op == "setsizemask":
                    a.size[self.ref(t[2])] = int(t[3])
                elif op == "setsizevec":
                    a.size[p_idx(t[2])] = self.ref(t[3])
                else:
                    a.size[self.ref(t[2])] = self.ref(t[3])
            finally:
                # `std::vector<Vec2<T>>::resize` leaves the new elements UNINITIALISED (Vec2's default constructor does
                # nothing); rows of scalars are zero-filled.  The harness gives the new elements of class-typed rows
                # the value the model uses (0) so that the streams stay deterministic.
                if self.dec(self.enc(0)) == 0 and not isinstance(self.enc(0), (int, float)):
                    for i in range(len(a)):
                        r = a[i]
                        for j in range(before[i], len(r)):
                            r[j] = self.enc(0)
            return "ok"
        return "bad"

    def new(self, a, dec=None, src=None):
        self.objs.append((a, dec or self.dec))
        if src is not None and src in self.encs:
            self.encs[len(self.objs) - 1] = self.encs[src]
        return "new %d" % (len(self.objs) - 1)

    def mk(self, cls, vals, enc):
        a = cls(len(vals))
        for i, v in enumerate(vals):
            a[i] = enc(v)
        return a

    def dump(self):
        out = []
        for a, dec in self.objs:
            try:
                vals = [dec(a[i]) for i in range(len(a))]
                out.append(("w" if a.writable() else "r") + show(vals))
            except Exception as e:   # noqa
                out.append("EXC(%s)" % type(e).__name__)
        s = " ".join(out)
        if self.d2:
            s += " | " + " ".join(self.dump2(a) for a in self.d2)
        if self.mats:
            s += " | " + " ".join(self.dumpm(m) for m in self.mats)
        if self.vas:
            s += " # " + " ".join(self.dumpv(a) for a in self.vas)
        return s

    def dump2(self, a):
        lx, ly = a.size()
        dec = self.dec2(a)
        return "%dx%d" % (lx, ly) + show([dec(a.item(i, j)) for j in range(ly) for i in range(lx)])

    def dumpm(self, m):
        r, c = m.rows(), m.columns()
        return "%dx%d" % (r, c) + show([int(m[i][j]) for i in range(r) for j in range(c)])

    def run(self, t):
        op = t[0]
        im = self.imath
        if op in ("alloc",):
            return self.new(self.mk(self.cls, p_vals(t[1]), self.enc))
        if op == "alloci":
            return self.new(self.mk(im.IntArray, p_vals(t[1]), int), int)
        if op == "allocw":
            ci = self.comp
            w, cells = int(t[1]), p_vals(t[2])
            if ci is None or ci["w"] != w:
                return "err unsupported:allocw"
            a = self.cls(len(cells) // w)
            for i in range(len(cells) // w):
                a[i] = ci["make"](cells[w * i:w * i + w])
            return self.new(a, ci["first"])
        if op == "allocfill":
            return self.new(self.cls(self.enc(int(t[1])), int(t[2])))
        if op in ("settuple", "setlist"):
            a = self.ref(t[1]); ci = self.comp
            if ci is None or type(a) is not self.cls:
                return "err unsupported:" + op
            vals = [ci["cenc"](x) for x in p_vals(t[3])]
            a[int(t[2][2:])] = tuple(vals) if op == "settuple" else list(vals)
            return "ok"
        if op in ("copyc", "copyd"):
            import copy as _copy
            i = int(t[1]); a = self.ref(t[1])
            return self.new(_copy.copy(a) if op == "copyc" else _copy.deepcopy(a), self.objs[i][1], i)
        if op == "elemset":
            a = self.ref(t[1]); ci = self.comp
            if ci is None or type(a) is not self.cls:
                return "err unsupported:elemset"
            e = a[int(t[2])]
            setattr(e, ci["names"][int(t[3])], ci["cenc"](int(t[4])))
            return "ok"
        if op == "allocc":
            ci = self.comp
            if ci is None:
                return "err unsupported:allocc"
            r = self.new(self.mk(getattr(im, ci["ccls"]), p_vals(t[1]), ci["cenc"]), ci["cdec"])
            self.encs[len(self.objs) - 1] = ci["cenc"]
            return r
        if op == "comp":
            i = int(t[1]); a = self.ref(t[1]); ci = self.comp
            if ci is None or type(a) is not self.cls:
                return "err unsupported:comp"
            c = getattr(a, ci["names"][int(t[2])])
            r = self.new(c, ci["cdec"])
            self.encs[len(self.objs) - 1] = ci["cenc"]
            return r
        if op == "len":
            return "int %d" % len(self.ref(t[1]))
        if op == "getitem":
            i = int(t[1])
            if i < 0 or i >= len(self.objs):
                raise BadRef()
            a, dec = self.objs[i]
            return "int %s" % dec(a[int(t[2])])
        if op == "getslice":
            i = int(t[1]); a = self.ref(t[1])
            return self.new(a[p_idx(t[2])], self.objs[i][1], i)
        if op == "getmask":
            i = int(t[1]); a = self.ref(t[1])
            return self.new(a[self.ref(t[2])], self.objs[i][1], i)
        if op == "copy":
            i = int(t[1]); a = self.ref(t[1])
            return self.new(type(a)(a), self.objs[i][1], i)
        if op == "convert" and len(t) > 2:
            a = self.ref(t[1])
            tcls = getattr(im, t[2])
            tcd = make_codec(im, t[2])
            r = self.new(tcls(a), tcd[1])
            self.encs[len(self.objs) - 1] = tcd[0]
            return r
        if op == "convert":
            a = self.ref(t[1])
            if self.conv is None or type(a) is not self.cls:
                if type(a) is im.IntArray:
                    return self.new(im.FloatArray(a), int)
                return "err unsupported:convert"
            tcls, tdec = self.conv
            return self.new(tcls(a), tdec)
        if op == "setscalar":
            i = int(t[1]); a = self.ref(t[1])
            a[p_idx(t[2])] = self.enc_for(i)(int(t[3]))
            return "ok"
        if op == "setscalarmask":
            i = int(t[1]); a = self.ref(t[1])
            a[self.ref(t[2])] = self.enc_for(i)(int(t[3]))
            return "ok"
        if op == "setvector":
            a = self.ref(t[1]); d = self.ref(t[3])
            a[p_idx(t[2])] = d
            return "ok"
        if op == "setvectormask":
            a = self.ref(t[1]); m = self.ref(t[2]); d = self.ref(t[3])
            a[m] = d
            return "ok"
        if op == "ifelses":
            i = int(t[1]); a = self.ref(t[1])
            return self.new(a.ifelse(self.ref(t[2]), self.enc_for(i)(int(t[3]))), self.objs[i][1], i)
        if op == "ifelsev":
            i = int(t[1]); a = self.ref(t[1])
            return self.new(a.ifelse(self.ref(t[2]), self.ref(t[3])), self.objs[i][1], i)
        if op == "ro":
            self.ref(t[1]).makeReadOnly()
            return "ok"
        if op == "iadds":
            i = int(t[1]); a = self.ref(t[1])
            a.__iadd__(self.enc_for(i)(int(t[2])))
            return "ok"
        if op == "iaddv":
            a = self.ref(t[1]); d = self.ref(t[2])
            a.__iadd__(d)
            return "ok"
        if op == "d2":
            return self.run2d(t[1:])
        if op == "m":
            return self.runmat(t[1:])
        if op == "v":
            return self.runv(t[1:])
        return "bad"

    def run_str(self, t):
        """string array ops; returns the whole output line"""
        im = self.imath
        dump = lambda: "[" + ",".join(self.strs[i] for i in range(len(self.strs))) + "]"
        try:
            if t[0] == "new":
                self.strs = im.StringArray(t[2], int(t[1]))
                return "ok;" + dump()
            if t[0] == "set":
                self.strs[int(t[1])] = t[2]
                return "ok;" + dump()
            if t[0] == "get":
                return "str " + self.strs[int(t[1])] + ";" + dump()
        except Exception:
            return "err;" + dump()
        return "bad"

    def run_sa(self, t, wide=False):
        """several string arrays (`sa ...` StringArray, `saw ...` WstringArray); returns the whole output line"""
        im = self.imath
        cls = im.WstringArray if wide else im.StringArray
        key = "saw" if wide else "sa"
        arrs = self.sas.setdefault(key, [])
        def elem(a, i):
            try:
                return a[i]
            except Exception as e:       # e.g. "String table access out of bounds": an index that is not in the array's own table
                return "EXC(%s)" % type(e).__name__
        dump = lambda: " ".join(("w" if getattr(a, "writable", lambda: True)() else "r") + "[" + ",".join(elem(a, i) for i in range(len(a))) + "]" for a in arrs)

        def ref(s):
            i = int(s)
            if i < 0 or i >= len(arrs):
                raise BadRef()
            return arrs[i]

        def mask(bits):
            return self.mk(im.IntArray, p_vals(bits), int)
        try:
            op = t[0]
            if op == "new":
                arrs.append(cls(t[2], int(t[1]))); r = "new %d" % (len(arrs) - 1)
            elif op == "default":
                arrs.append(cls(int(t[1]))); r = "new %d" % (len(arrs) - 1)
            elif op == "len":
                r = "int %d" % len(ref(t[1]))
            elif op == "ro":
                ref(t[1]).makeReadOnly(); r = "ok"
            elif op == "get":
                r = "str " + ref(t[1])[int(t[2])]
            elif op == "set":
                ref(t[1])[p_idx(t[2])] = t[3]; r = "ok"
            elif op == "setmask":
                ref(t[1])[mask(t[2])] = t[3]; r = "ok"
            elif op == "setvec":
                ref(t[1])[p_idx(t[2])] = ref(t[3]); r = "ok"
            elif op == "setvecmask":
                ref(t[1])[mask(t[2])] = ref(t[3]); r = "ok"
            elif op == "getslice":
                arrs.append(ref(t[1])[p_idx(t[2])]); r = "new %d" % (len(arrs) - 1)
            elif op in ("eq", "ne"):
                x = (ref(t[1]) == ref(t[2])) if op == "eq" else (ref(t[1]) != ref(t[2]))
                r = "ints " + show([int(x[i]) for i in range(len(x))])
            elif op in ("eqs", "nes"):
                x = (ref(t[1]) == t[2]) if op == "eqs" else (ref(t[1]) != t[2])
                r = "ints " + show([int(x[i]) for i in range(len(x))])
            else:
                r = "bad"
        except BadRef:
            r = "err badRef:badRef"
        except Exception as e:
            r = canon_exc(e)
        return r + ";" + dump()

    def enc_for(self, i):
        if i in self.encs:
            return self.encs[i]
        dec = self.objs[i][1]
        return int if dec is int else self.enc

    # ---- FixedArray2D (IntArray2D) and FixedMatrix (IntMatrix)
    def r2(self, s):
        i = int(s)
        if i < 0 or i >= len(self.d2):
            raise BadRef()
        return self.d2[i]

    def rm(self, s):
        i = int(s)
        if i < 0 or i >= len(self.mats):
            raise BadRef()
        return self.mats[i]

    # the 2-D / matrix class whose elements are those of the class under test
    CLS2D = {"IntArray": "IntArray2D", "FloatArray": "FloatArray2D", "DoubleArray": "DoubleArray2D",
             "C4fArray": "Color4fArray2D", "C4cArray": "Color4cArray2D"}
    CLSM = {"IntArray": "IntMatrix", "FloatArray": "FloatMatrix", "DoubleArray": "DoubleMatrix"}

    def run2d(self, t):
        im = self.imath
        op = t[0]
        C2 = getattr(im, self.CLS2D.get(self.clsname, "IntArray2D"))
        if op in ("alloc", "alloci"):
            lx, ly, vals = int(t[1]), int(t[2]), p_vals(t[3])
            a = (im.IntArray2D if op == "alloci" else C2)(lx, ly)
            enc = int if op == "alloci" else self.enc
            for j in range(ly):
                for i in range(lx):
                    a[i, j] = enc(vals[j * lx + i])
            self.d2.append(a)
            return "new %d" % (len(self.d2) - 1)
        if op == "fill":
            self.d2.append(C2(self.enc(int(t[1])), int(t[2]), int(t[3])))
            return "new %d" % (len(self.d2) - 1)
        if op == "copy":
            a = self.r2(t[1])
            self.d2.append(type(a)(a))
            return "new %d" % (len(self.d2) - 1)
        if op in ("copyc", "copyd"):
            import copy as _copy
            a = self.r2(t[1])
            self.d2.append(_copy.copy(a) if op == "copyc" else _copy.deepcopy(a))
            return "new %d" % (len(self.d2) - 1)
        if op == "len":
            return "int %d" % len(self.r2(t[1]))
        if op == "item":
            a = self.r2(t[1])
            return "int %d" % self.dec2(a)(a.item(int(t[2]), int(t[3])))
        if op == "getslice":
            self.d2.append(self.r2(t[1])[p_idx(t[2]), p_idx(t[3])])
            return "new %d" % (len(self.d2) - 1)
        if op == "setscalar":
            a = self.r2(t[1])
            a[p_idx(t[2]), p_idx(t[3])] = self.enc2(a)(int(t[4]))
            return "ok"
        if op == "setvector":
            self.r2(t[1])[p_idx(t[2]), p_idx(t[3])] = self.r2(t[4])
            return "ok"
        if op == "set1d":
            self.r2(t[1])[p_idx(t[2]), p_idx(t[3])] = self.ref(t[4])
            return "ok"
        if op == "getmask":
            self.d2.append(self.r2(t[1])[self.r2(t[2])])
            return "new %d" % (len(self.d2) - 1)
        if op == "setscalarmask":
            a = self.r2(t[1])
            a[self.r2(t[2])] = self.enc2(a)(int(t[3]))
            return "ok"
        if op == "setvectormask":
            self.r2(t[1])[self.r2(t[2])] = self.r2(t[3])
            return "ok"
        if op == "set1dmask":
            self.r2(t[1])[self.r2(t[2])] = self.ref(t[3])
            return "ok"
        if op == "convert":
            self.d2.append(getattr(im, t[2])(self.r2(t[1])))
            return "new %d" % (len(self.d2) - 1)
        if op == "settuple":
            a = self.r2(t[1])
            e = self.enc2(a)(int(t[4]))
            a[(int(t[2]), int(t[3]))] = tuple(e[k] for k in range(4))[:int(t[5])] if int(t[5]) <= 4 else tuple([e[0]] * int(t[5]))
            return "ok"
        if op == "ifelses":
            a = self.r2(t[1])
            self.d2.append(a.ifelse(self.r2(t[2]), self.enc2(a)(int(t[3]))))
            return "new %d" % (len(self.d2) - 1)
        if op == "ifelsev":
            self.d2.append(self.r2(t[1]).ifelse(self.r2(t[2]), self.r2(t[3])))
            return "new %d" % (len(self.d2) - 1)
        return "bad"

    def enc2(self, a):
        if type(a).__name__ in ("IntArray2D", "FloatArray2D", "DoubleArray2D"):
            return int
        return self.enc

    def dec2(self, a):
        if type(a).__name__ in ("IntArray2D", "FloatArray2D", "DoubleArray2D"):
            return int
        return self.dec

    def runmat(self, t):
        im = self.imath
        op = t[0]
        if op == "alloc":
            r, c, vals = int(t[1]), int(t[2]), p_vals(t[3])
            m = getattr(im, self.CLSM.get(self.clsname, "IntMatrix"))(r, c)
            for i in range(r):
                row = m[i]
                for j in range(c):
                    row[j] = self.enc(vals[i * c + j])
            self.mats.append(m)
            return "new %d" % (len(self.mats) - 1)
        if op == "len":
            return "int %d" % len(self.rm(t[1]))
        if op == "row":
            return self.new(self.rm(t[1])[int(t[2])], self.dec)
        if op == "getslice":
            self.mats.append(self.rm(t[1])[p_idx(t[2])])
            return "new %d" % (len(self.mats) - 1)
        if op == "setscalar":
            self.rm(t[1])[p_idx(t[2])] = self.enc(int(t[3]))
            return "ok"
        if op == "setvector":
            self.rm(t[1])[p_idx(t[2])] = self.ref(t[3])
            return "ok"
        if op == "setmatrix":
            self.rm(t[1])[p_idx(t[2])] = self.rm(t[3])
            return "ok"
        return "bad"


def convert_targets(imath, clsname):
    """EVERY other array class constructible from `clsname` (all converting constructors), value-preserving on the codec"""
    src = getattr(imath, clsname)
    cd = make_codec(imath, clsname)
    if cd is None:
        return []
    probe = src(1)
    try:
        probe[0] = cd[0](3)
    except Exception:
        return []
    out = []
    for n in array_classes(imath):
        if n == clsname or n in ("StringArray", "WstringArray") or (n.startswith("V") and not n[1].isdigit()):
            continue
        tcd = make_codec(imath, n)
        if tcd is None:
            continue
        try:
            r = getattr(imath, n)(probe)
            if len(r) == 1 and tcd[1](r[0]) == 3:
                out.append(n)
        except Exception:
            continue
    return out


def convert_target(imath, clsname):
    """a different array class constructible from `clsname` (the converting constructor), with its decoder"""
    src = getattr(imath, clsname)
    cd = make_codec(imath, clsname)
    if cd is None:
        return None
    enc, dec, _ = cd
    probe = src(1)
    try:
        probe[0] = enc(3)
    except Exception:
        return None
    prefer = {"IntArray": ["FloatArray", "DoubleArray"], "FloatArray": ["DoubleArray", "IntArray"],
              "DoubleArray": ["FloatArray", "IntArray"]}
    fam = re.match(r"^(V\d|C\d|M\d\d|Box\d|Quat|Euler)", clsname)
    names = prefer.get(clsname, []) + ([n for n in array_classes(imath) if fam and n.startswith(fam.group(1))] if fam else [])
    for n in names:
        if n == clsname or n in ("StringArray", "WstringArray") or n.startswith("V") and not n[1].isdigit():
            continue
        tcls = getattr(imath, n)
        tcd = make_codec(imath, n)
        if tcd is None:
            continue
        try:
            r = tcls(probe)
            if len(r) == 1 and tcd[1](r[0]) == 3:
                return tcls, tcd[1]
        except Exception:
            continue
    return None


# ----------------------------------------------------------------------------------------------
# specification executor: Python lists

class SV:
    __slots__ = ("base", "sel", "ulen", "writable")

    def __init__(self, base, sel=None, ulen=0, writable=True):
        self.base, self.sel, self.ulen, self.writable = base, sel, ulen, writable

    def tolist(self):
        return list(self.base) if self.sel is None else [self.base[i] for i in self.sel]

    def positions(self):
        return list(range(len(self.base))) if self.sel is None else list(self.sel)

    def __len__(self):
        return len(self.base) if self.sel is None else len(self.sel)


class SW(SV):
    """a vector array of w-component elements: one shared base list per component; reads as its FIRST component
    (like the model and the real harness); `comp k` is an SV on component list k with the same selection"""
    __slots__ = ("cols",)

    def __init__(self, cols, sel=None, ulen=0, writable=True):
        SV.__init__(self, cols[0], sel, ulen, writable)
        self.cols = cols


class VS:
    """a variable array: nested Python lists (shared base list of row lists, selected positions)"""
    __slots__ = ("base", "sel", "ulen", "writable")

    def __init__(self, base, sel=None, ulen=0, writable=True):
        self.base, self.sel, self.ulen, self.writable = base, sel, ulen, writable

    def positions(self):
        return list(range(len(self.base))) if self.sel is None else list(self.sel)

    def rows(self):
        return [self.base[p] for p in self.positions()]

    def __len__(self):
        return len(self.base) if self.sel is None else len(self.sel)


class SpecErr(Exception):
    def __init__(self, kind, cls="ValueError"):
        self.kind, self.cls = kind, cls


class SpecExec:
    def __init__(self, quirks=False):
        # quirks (a set, used ONLY by the random generator to keep its view numbering in step with the real
        # module) reproduces known rejections of the code as written: "slice" = empty backward slices whose
        # start normalises to -1, "ifelse" = ifelse on a read-only source
        self.quirks = quirks
        self.reset()

    def reset(self):
        self.objs = []
        self.d2 = []
        self.mats = []
        self.strs = []
        self.vas = []
        self.sas = {}
        self.alias = False

    def ref(self, s):
        i = int(s)
        if i < 0 or i >= len(self.objs):
            raise BadRef()
        return self.objs[i]

    def new(self, v):
        self.objs.append(v)
        return "new %d" % (len(self.objs) - 1)

    def dump(self):
        return " ".join(("w" if o.writable else "r") + show(o.tolist()) for o in self.objs) + self.dump_extra()

    def sel_of(self, v, idx):
        """positions (into v) selected by a Python subscript — CPython's own semantics"""
        r = range(len(v))
        if isinstance(idx, int):
            try:
                return [r[idx]]
            except IndexError:
                raise SpecErr("indexError", "IndexError")
        if self.quirks and "slice" in self.quirks and idx.step is not None and idx.step < 0 and idx.indices(len(v))[0] == -1:
            raise SpecErr("domainError", "RuntimeError")
        try:
            return list(r[idx])
        except ValueError:
            raise SpecErr("stepZero")

    def check_alias(self, v, *others):
        if any(o.base is v.base for o in others):
            self.alias = True

    def run(self, t):
        op = t[0]
        self.alias = False
        self.quirk_applied = False
        if op in ("alloc", "alloci", "allocc"):
            return self.new(SV(p_vals(t[1])))
        if op == "allocfill":
            return self.new(SV([int(t[1])] * int(t[2])))
        if op in ("settuple", "setlist"):
            v = self.ref(t[1]); vals = p_vals(t[3])
            if not isinstance(v, SW):
                raise SpecErr("unsupported")
            if len(vals) != len(v.cols):
                raise SpecErr("tupleLen")
            try:
                p = v.positions()[range(len(v))[int(t[2][2:])]]
            except IndexError:
                raise SpecErr("indexError", "IndexError")
            if not v.writable:
                raise SpecErr("readOnly")
            for k, x in enumerate(vals):
                v.cols[k][p] = x
            return "ok"
        if op in ("copyc", "copyd"):
            t = ["copy", t[1]]
            op = "copy"
        if op == "elemset":
            v = self.ref(t[1])
            if not isinstance(v, SW):
                raise SpecErr("unsupported")
            try:
                p = v.positions()[range(len(v))[int(t[2])]]
            except IndexError:
                raise SpecErr("indexError", "IndexError")
            if v.writable:                 # the element of a read-only array is a copy
                v.cols[int(t[3])][p] = int(t[4])
            return "ok"
        if op == "allocw":
            w, cells = int(t[1]), p_vals(t[2])
            return self.new(SW([cells[k::w] for k in range(w)]))
        if op == "comp":
            v = self.ref(t[1])
            if not isinstance(v, SW):
                raise SpecErr("unsupported")
            # the component array of a masked reference is the masked reference of the component array
            return self.new(SV(v.cols[int(t[2])], None if v.sel is None else list(v.sel), v.ulen, v.writable))
        if op == "len":
            return "int %d" % len(self.ref(t[1]))
        if op == "getitem":
            v = self.ref(t[1])
            try:
                return "int %d" % v.tolist()[int(t[2])]
            except IndexError:
                raise SpecErr("indexError", "IndexError")
        if op == "getslice":
            v = self.ref(t[1]); idx = p_idx(t[2])
            l = v.tolist()
            if self.quirks:
                self.sel_of(v, idx)
            try:
                return self.new(SV(l[idx] if isinstance(idx, slice) else [l[idx]]))
            except ValueError:
                raise SpecErr("stepZero")
            except IndexError:
                raise SpecErr("indexError", "IndexError")
        if op == "getmask":
            v = self.ref(t[1]); m = self.ref(t[2])
            if v.sel is not None:
                raise SpecErr("maskedMask")          # documented restriction
            if len(m) != len(v):
                raise SpecErr("dimMismatch")
            bits = m.tolist()
            sel = [i for i in range(len(v)) if bits[i] != 0]
            if isinstance(v, SW):
                return self.new(SW(v.cols, sel, len(v), v.writable))
            return self.new(SV(v.base, sel, len(v), v.writable))
        if op == "copy":
            v = self.ref(t[1])
            if isinstance(v, SW):
                return self.new(SW(v.cols, None if v.sel is None else list(v.sel), v.ulen, v.writable))
            return self.new(SV(v.base, None if v.sel is None else list(v.sel), v.ulen, v.writable))
        if op == "convert":      # (optionally with a named target class)
            return self.new(SV(self.ref(t[1]).tolist()))
        if op == "setscalar":
            v = self.ref(t[1])
            if not v.writable:
                raise SpecErr("readOnly")
            pos = v.positions()
            for k in self.sel_of(v, p_idx(t[2])):
                v.base[pos[k]] = int(t[3])
            return "ok"
        if op == "setscalarmask":
            v = self.ref(t[1]); m = self.ref(t[2])
            if not v.writable:
                raise SpecErr("readOnly")
            self.check_alias(v, m)
            bits = m.tolist(); pos = v.positions()
            if len(m) == len(v):
                ks = [i for i in range(len(v)) if bits[i] != 0]
                if self.quirks and "maskonmasked" in self.quirks and v.sel is not None and len(ks) != len(v):
                    # the recorded quirk, reproduced EXACTLY: on a masked reference the mask is not looked at
                    ks = list(range(len(v)))
                    self.quirk_applied = True
            elif v.sel is not None and len(m) == v.ulen:
                ks = list(range(len(v)))      # extension: mask of the unmasked length on a masked reference
            else:
                raise SpecErr("dimMismatch")
            for k in ks:
                v.base[pos[k]] = int(t[3])
            return "ok"
        if op == "setvector":
            v = self.ref(t[1]); d = self.ref(t[3])
            if not v.writable:
                raise SpecErr("readOnly")
            self.check_alias(v, d)
            ks = self.sel_of(v, p_idx(t[2]))
            data = d.tolist()
            if len(data) != len(ks):
                raise SpecErr("srcDimMismatch", "IndexError")
            pos = v.positions()
            for n, k in enumerate(ks):
                v.base[pos[k]] = data[n]
            return "ok"
        if op == "setvectormask":
            v = self.ref(t[1]); m = self.ref(t[2]); d = self.ref(t[3])
            if not v.writable:
                raise SpecErr("readOnly")
            if v.sel is not None:
                raise SpecErr("maskedSetMask")        # documented restriction
            self.check_alias(v, m, d)
            if len(m) != len(v):
                raise SpecErr("dimMismatch")
            bits = m.tolist(); data = d.tolist()
            ks = [i for i in range(len(v)) if bits[i] != 0]
            if len(data) == len(v):
                src = [data[k] for k in ks]
            elif len(data) == len(ks):
                src = data
            else:
                raise SpecErr("maskDataMismatch")
            for n, k in enumerate(ks):
                v.base[k] = src[n]
            return "ok"
        if op in ("ifelses", "ifelsev"):
            v = self.ref(t[1]); c = self.ref(t[2])
            if len(c) != len(v):
                raise SpecErr("dimMismatch")
            a = v.tolist(); bits = c.tolist()
            if self.quirks and "ifelse" in self.quirks and not v.writable and any(bits):
                raise SpecErr("readOnly")
            if op == "ifelsev":
                o = self.ref(t[3])
                if len(o) != len(v):
                    raise SpecErr("dimMismatch")
                b = o.tolist()
            else:
                b = [int(t[3])] * len(v)
            return self.new(SV([a[i] if bits[i] != 0 else b[i] for i in range(len(v))]))
        if op == "ro":
            self.ref(t[1]).writable = False
            return "ok"
        if op == "iadds":
            v = self.ref(t[1])
            if not v.writable:
                raise SpecErr("readOnly")
            for p in v.positions():
                v.base[p] += int(t[2])
            return "ok"
        if op == "iaddv":
            v = self.ref(t[1]); d = self.ref(t[2])
            if len(d) != len(v) and not (v.sel is not None and len(d) == v.ulen):
                raise SpecErr("dimMismatch")
            if not v.writable:
                raise SpecErr("readOnly")
            self.check_alias(v, d)
            data = d.tolist(); pos = v.positions()
            if len(d) == len(v) and not (v.sel is not None and len(d) == v.ulen):
                src = data
            else:
                src = [data[p] for p in pos]   # extension: right-hand side of the unmasked length
            for n, p in enumerate(pos):
                v.base[p] += src[n]
            return "ok"
        if op == "d2":
            return self.run2d(t[1:])
        if op == "m":
            return self.runmat(t[1:])
        if op == "v":
            return self.runv(t[1:])
        return "bad"

    # ---- FixedVArray as nested Python lists
    def rv(self, s):
        i = int(s)
        if i < 0 or i >= len(self.vas):
            raise BadRef()
        return self.vas[i]

    def newv(self, v):
        self.vas.append(v)
        return "new %d" % (len(self.vas) - 1)

    def vsel(self, v, idx):
        """positions (into v) selected by an int or a FORWARD slice; backward slices are outside the quantifier"""
        if isinstance(idx, slice) and idx.step is not None and idx.step < 0:
            self.alias = True
        return self.sel_of(range(len(v)), idx)

    def vmask_positions(self, v, m, strict):
        """virtual indices of v selected by mask m (`a[m] = ...`)"""
        bits = m.tolist()
        if len(m) == len(v):
            ks = [i for i in range(len(v)) if bits[i] != 0]
            if not strict and self.quirks and "maskonmasked" in self.quirks and v.sel is not None and len(ks) != len(v):
                self.quirk_applied = True       # FixedVArray / SizeHelper `*_scalar_mask` on a masked reference: all rows
                return list(range(len(v)))
            return ks
        if not strict and v.sel is not None and len(m) == v.ulen:
            return list(range(len(v)))        # extension: mask of the unmasked length on a masked reference
        raise SpecErr("dimMismatch")

    @staticmethod
    def resize(row, k):
        del row[k:]
        row.extend([0] * (k - len(row)))

    def runv(self, t):
        op = t[0]
        if op == "new":
            return self.newv(VS([[] for _ in range(int(t[1]))]))
        if op == "newfill":
            return self.newv(VS([[int(t[1])] for _ in range(int(t[2]))]))
        if op == "newsizes":
            return self.newv(VS([[int(t[2])] * k for k in self.ref(t[1]).tolist()]))
        v = self.rv(t[1])
        pos = v.positions()
        if op == "copy":
            return self.newv(VS(v.base, None if v.sel is None else list(v.sel), v.ulen, v.writable))
        if op == "len":
            return "int %d" % len(v)
        if op in ("row", "size", "setelem"):
            try:
                row = v.rows()[int(t[2])]
            except IndexError:
                raise SpecErr("indexError", "IndexError")
            if op == "row":
                return "row " + show(row)
            if op == "size":
                return "int %d" % len(row)
            if not v.writable:
                raise SpecErr("readOnly")
            try:
                row[range(len(row))[int(t[3])]] = int(t[4])
            except IndexError:
                raise SpecErr("indexError", "IndexError")
            return "ok"
        if op == "getslice":
            ks = self.vsel(v, p_idx(t[2]))
            return self.newv(VS([list(v.base[pos[k]]) for k in ks]))
        if op == "sizeslice":
            ks = self.vsel(v, p_idx(t[2]))
            return self.new(SV([len(v.base[pos[k]]) for k in ks]))
        if op == "getmask":
            m = self.ref(t[2])
            if v.sel is not None:
                raise SpecErr("maskedMask")
            if len(m) != len(v):
                raise SpecErr("dimMismatch")
            bits = m.tolist()
            return self.newv(VS(v.base, [i for i in range(len(v)) if bits[i] != 0], len(v), v.writable))
        if op == "sizemask":
            m = self.ref(t[2])
            if len(m) != len(v):
                raise SpecErr("dimMismatch")
            bits = m.tolist()
            return self.new(SV([len(v.base[pos[i]]) for i in range(len(v)) if bits[i] != 0]))
        if op == "ro":
            v.writable = False
            return "ok"
        # ---- writes
        if not v.writable:
            raise SpecErr("readOnly")
        if op in ("setrow", "setsize", "setvec", "setsizevec"):
            ks = self.vsel(v, p_idx(t[2]))
        elif op in ("setrowmask", "setsizemask"):
            ks = self.vmask_positions(v, self.ref(t[2]), False)
        else:
            if v.sel is not None:
                raise SpecErr("maskedSetMask")
            ks = self.vmask_positions(v, self.ref(t[2]), True)
        if op in ("setrow", "setrowmask"):
            data = self.ref(t[3]).tolist()
            for k in ks:
                row = v.base[pos[k]]
                if len(row) != len(data):
                    raise SpecErr("rowLenMismatch")      # raised in the middle: the rows before stay assigned
                row[:] = data
            return "ok"
        if op in ("setsize", "setsizemask"):
            for k in ks:
                self.resize(v.base[pos[k]], int(t[3]))
            return "ok"
        if op in ("setvec", "setvecmask"):
            b = self.rv(t[3])
            if b.base is v.base:
                self.alias = True
            src = b.rows()
        else:
            src = self.ref(t[3]).tolist()
        if op in ("setvec", "setsizevec"):
            if len(src) != len(ks):
                raise SpecErr("srcDimMismatch", "IndexError")
        else:
            if len(src) == len(v):
                src = [src[k] for k in ks]
            elif len(src) != len(ks):
                raise SpecErr("maskDataMismatch")
        snap = [list(r) if isinstance(r, list) else r for r in src]
        for n, k in enumerate(ks):
            if op in ("setvec", "setvecmask"):
                v.base[pos[k]][:] = snap[n]
            else:
                self.resize(v.base[pos[k]], snap[n])
        return "ok"

    # ---- nested Python lists: FixedArray2D as L[j][i] (with explicit lengths), FixedMatrix as R[i][j]
    def dump_extra(self):
        s = ""
        if self.d2:
            s += " | " + " ".join("%dx%d" % (lx, ly) + show([L[j][i] for j in range(ly) for i in range(lx)])
                                  for (lx, ly, L) in self.d2)
        if self.mats:
            s += " | " + " ".join("%dx%d" % (len(R), c) + show([x for row in R for x in row]) for (c, R) in self.mats)
        if self.vas:
            s += " # " + " ".join(("w" if v.writable else "r") + "[" + ",".join(show(r) for r in v.rows()) + "]" for v in self.vas)
        return s

    def r2(self, s):
        i = int(s)
        if i < 0 or i >= len(self.d2):
            raise BadRef()
        return self.d2[i]

    def rm(self, s):
        i = int(s)
        if i < 0 or i >= len(self.mats):
            raise BadRef()
        return self.mats[i]

    def sel1(self, n, idx):
        if isinstance(idx, slice) and idx.step is not None and idx.step < 0:
            self.alias = True          # backward slices are outside the 2-D quantifier ("forward slice per dimension")
        return self.sel_of(range(n), idx)

    def run2d(self, t):
        op = t[0]
        if op in ("alloc", "alloci"):
            lx, ly, v = int(t[1]), int(t[2]), p_vals(t[3])
            self.d2.append((lx, ly, [[v[j * lx + i] for i in range(lx)] for j in range(ly)]))
            return "new %d" % (len(self.d2) - 1)
        if op == "fill":
            lx, ly = int(t[2]), int(t[3])
            self.d2.append((lx, ly, [[int(t[1])] * lx for _ in range(ly)]))
            return "new %d" % (len(self.d2) - 1)
        lx, ly, L = self.r2(t[1])
        if op == "convert":
            self.d2.append((lx, ly, [list(r) for r in L]))     # a converting constructor copies
            return "new %d" % (len(self.d2) - 1)
        if op == "settuple":
            if t[5] != "4":
                raise SpecErr("tupleLen")
            try:
                L[range(ly)[int(t[3])]][range(lx)[int(t[2])]] = int(t[4])
            except IndexError:
                raise SpecErr("indexError", "IndexError")
            return "ok"
        if op in ("copy", "copyc", "copyd"):
            self.d2.append((lx, ly, L))          # the copy constructor (also behind __copy__ / __deepcopy__) shares the data
            return "new %d" % (len(self.d2) - 1)
        if op == "len":
            return "int %d" % (lx * ly)
        if op == "item":
            try:
                return "int %d" % L[range(ly)[int(t[3])]][range(lx)[int(t[2])]]
            except IndexError:
                raise SpecErr("indexError", "IndexError")
        if op in ("getslice", "setscalar", "setvector", "set1d"):
            xs = self.sel1(lx, p_idx(t[2])); ys = self.sel1(ly, p_idx(t[3]))
            if op == "getslice":
                self.d2.append((len(xs), len(ys), [[L[j][i] for i in xs] for j in ys]))
                return "new %d" % (len(self.d2) - 1)
            if op == "setscalar":
                for j in ys:
                    for i in xs:
                        L[j][i] = int(t[4])
                return "ok"
            if op == "setvector":
                dx, dy, D = self.r2(t[4])
                if (dx, dy) != (len(xs), len(ys)):
                    raise SpecErr("srcDimMismatch", "IndexError")
                snap = [list(r) for r in D]
                for b, j in enumerate(ys):
                    for a, i in enumerate(xs):
                        L[j][i] = snap[b][a]
                return "ok"
            d = self.ref(t[4]).tolist()
            if len(d) != len(xs) * len(ys):
                raise SpecErr("srcDimMismatch", "IndexError")
            for b, j in enumerate(ys):
                for a, i in enumerate(xs):
                    L[j][i] = d[b * len(xs) + a]
            return "ok"
        mx, my, M = self.r2(t[2])
        if (mx, my) != (lx, ly):
            raise SpecErr("srcDimMismatch", "IndexError")
        if op == "getmask":
            self.d2.append((lx, ly, [[L[j][i] if M[j][i] != 0 else 0 for i in range(lx)] for j in range(ly)]))
            return "new %d" % (len(self.d2) - 1)
        if op == "setscalarmask":
            for j in range(ly):
                for i in range(lx):
                    if M[j][i] != 0:
                        L[j][i] = int(t[3])
            return "ok"
        if op == "setvectormask":
            dx, dy, D = self.r2(t[3])
            if (dx, dy) != (lx, ly):
                raise SpecErr("srcDimMismatch", "IndexError")
            snap = [list(r) for r in D]
            for j in range(ly):
                for i in range(lx):
                    if M[j][i] != 0:
                        L[j][i] = snap[j][i]
            return "ok"
        if op == "set1dmask":
            d = self.ref(t[3]).tolist()
            sel = [(i, j) for j in range(ly) for i in range(lx) if M[j][i] != 0]
            if len(d) == lx * ly:
                src = [d[j * lx + i] for (i, j) in sel]
            elif len(d) == len(sel):
                src = d
            else:
                raise SpecErr("srcDimMismatch", "IndexError")
            for n, (i, j) in enumerate(sel):
                L[j][i] = src[n]
            return "ok"
        if op in ("ifelses", "ifelsev"):
            if op == "ifelsev":
                ox, oy, O = self.r2(t[3])
                if (ox, oy) != (lx, ly):
                    raise SpecErr("srcDimMismatch", "IndexError")
            self.d2.append((lx, ly, [[L[j][i] if M[j][i] != 0 else (O[j][i] if op == "ifelsev" else int(t[3]))
                                      for i in range(lx)] for j in range(ly)]))
            return "new %d" % (len(self.d2) - 1)
        return "bad"

    def runmat(self, t):
        op = t[0]
        if op == "alloc":
            r, c, v = int(t[1]), int(t[2]), p_vals(t[3])
            self.mats.append((c, [[v[i * c + j] for j in range(c)] for i in range(r)]))
            return "new %d" % (len(self.mats) - 1)
        c, R = self.rm(t[1])
        if op == "len":
            return "int %d" % len(R)
        if op == "row":
            try:
                return self.new(SV(R[int(t[2])]))      # the inner list itself: a row is a view
            except IndexError:
                raise SpecErr("indexError", "IndexError")
        rows = self.sel_of(range(len(R)), p_idx(t[2]))
        if op == "getslice":
            self.mats.append((c, [list(R[i]) for i in rows]))
            return "new %d" % (len(self.mats) - 1)
        if op == "setscalar":
            for i in rows:
                R[i][:] = [int(t[3])] * c
            return "ok"
        if op == "setvector":
            d = self.ref(t[3]).tolist()
            if len(d) != c:
                raise SpecErr("srcDimMismatch", "IndexError")
            for i in rows:
                R[i][:] = d
            return "ok"
        if op == "setmatrix":
            dc, D = self.rm(t[3])
            if dc != c or len(D) != len(rows):
                raise SpecErr("srcDimMismatch", "IndexError")
            snap = [list(r) for r in D]
            for k, i in enumerate(rows):
                R[i][:] = snap[k]
            return "ok"
        return "bad"

    def run_sa(self, t, wide=False):
        arrs = self.sas.setdefault("saw" if wide else "sa", [])
        dump = lambda: " ".join(("w" if w else "r") + "[" + ",".join(l) + "]" for (l, w) in arrs)
        pre = ""

        def ref(s):
            i = int(s)
            if i < 0 or i >= len(arrs):
                raise BadRef()
            return arrs[i]
        try:
            op = t[0]
            if op == "new":
                arrs.append([[t[2]] * int(t[1]), True]); r = "new %d" % (len(arrs) - 1)
            elif op == "default":
                arrs.append([[""] * int(t[1]), True]); r = "new %d" % (len(arrs) - 1)
            elif op == "len":
                r = "int %d" % len(ref(t[1])[0])
            elif op == "ro":
                ref(t[1])[1] = False; r = "ok"
            elif op == "get":
                try:
                    r = "str " + ref(t[1])[0][int(t[2])]
                except IndexError:
                    raise SpecErr("indexError", "IndexError")
            elif op in ("set", "setmask", "setvec", "setvecmask"):
                a = ref(t[1])
                if not a[1]:
                    raise SpecErr("readOnly")
                l = a[0]
                if op in ("set", "setvec"):
                    ks = self.sel_of(range(len(l)), p_idx(t[2]))
                else:
                    bits = p_vals(t[2])
                    if len(bits) != len(l):
                        raise SpecErr("dimMismatch")
                    ks = [i for i in range(len(l)) if bits[i] != 0]
                if op in ("set", "setmask"):
                    for k in ks:
                        l[k] = t[3]
                else:
                    b = ref(t[3])
                    if b is a:
                        pre = "alias "       # list semantics evaluate the right-hand side first
                    src = list(b[0])
                    if op == "setvec":
                        if len(src) != len(ks):
                            raise SpecErr("srcDimMismatch", "IndexError")
                    elif len(src) == len(l):
                        src = [src[k] for k in ks]
                    elif len(src) != len(ks):
                        raise SpecErr("srcDimMismatch", "IndexError")
                    for n, k in enumerate(ks):
                        l[k] = src[n]
                r = "ok"
            elif op == "getslice":
                l = ref(t[1])[0]
                arrs.append([[l[k] for k in self.sel_of(range(len(l)), p_idx(t[2]))], True]); r = "new %d" % (len(arrs) - 1)
            elif op in ("eq", "ne"):
                x, y = ref(t[1])[0], ref(t[2])[0]
                if len(x) != len(y):
                    raise SpecErr("dimMismatch")
                r = "ints " + show([int((p == q) == (op == "eq")) for p, q in zip(x, y)])
            elif op in ("eqs", "nes"):
                r = "ints " + show([int((p == t[2]) == (op == "eqs")) for p in ref(t[1])[0]])
            else:
                r = "bad"
        except BadRef:
            r = "err badRef:badRef"
        except SpecErr as e:
            r = "err %s:%s" % (e.cls, e.kind)
        return pre + r + ";" + dump()

    def run_str(self, t):
        dump = lambda: "[" + ",".join(self.strs) + "]"
        try:
            if t[0] == "new":
                self.strs = [t[2]] * int(t[1])
                return "ok;" + dump()
            if t[0] == "set":
                self.strs[range(len(self.strs))[int(t[1])]] = t[2]
                return "ok;" + dump()
            if t[0] == "get":
                return "str " + self.strs[int(t[1])] + ";" + dump()
        except Exception:
            return "err;" + dump()
        return "bad"


# ----------------------------------------------------------------------------------------------

def serve(ex, inp, out, flush=False):
    if flush:
        _w = out.write

        def w(x):
            _w(x)
            out.flush()
        inp = iter(inp.readline, "")
    else:
        w = out.write
    for line in inp:
        t = line.split()
        if not t:
            continue
        if t[0] == "reset":
            ex.reset()
            w("reset\n")
            continue
        pre = ""
        if t[0] == "st":
            w(ex.run_str(t[1:]) + "\n")
            continue
        if t[0] in ("sa", "saw"):
            w(ex.run_sa(t[1:], t[0] == "saw") + "\n")
            continue
        try:
            r = ex.run(t)
            if getattr(ex, "alias", False):
                pre = "alias "
            elif getattr(ex, "quirk_applied", False):
                pre = "quirk "
        except BadRef:
            r = "err badRef:badRef"
        except SpecErr as e:
            r = "err %s:%s" % (e.cls, e.kind)
        except Exception as e:  # the real module's exception
            r = canon_exc(e)
        w(pre + r + ";" + ex.dump() + "\n")
    out.flush()


def main():
    ap = argparse.ArgumentParser()
    ap.add_argument("--mode", default="real")
    ap.add_argument("--cls", default="IntArray")
    ap.add_argument("--flush", action="store_true", help="flush after every line (interactive use through pipes)")
    ap.add_argument("--quirks", default="", help="spec mode: comma list of recorded deviations to REPRODUCE exactly "
                    "(maskonmasked); lines where one took effect are prefixed `quirk `")
    a = ap.parse_args()
    if a.mode == "spec":
        serve(SpecExec(set(q for q in a.quirks.split(",") if q) or False), sys.stdin, sys.stdout, a.flush)
    elif a.mode == "classes":
        import imath
        res = {}
        for n in array_classes(imath):
            c = getattr(imath, n)
            cd = None
            try:
                cd = make_codec(imath, n)
            except Exception:
                cd = None
            generic = all(hasattr(c, m) for m in ("makeReadOnly", "writable", "ifelse"))
            ct = None
            if cd and generic:
                try:
                    ct = convert_target(imath, n)
                except Exception:
                    ct = None
            ci = None
            try:
                ci = comp_info(imath, n)
            except Exception:
                ci = None
            targets, tup, lst = [], False, False
            if cd and generic:
                try:
                    targets = convert_targets(imath, n)
                except Exception:
                    targets = []
            if ci:
                for kind in ("tuple", "list"):
                    try:
                        a = c(1)
                        vals = [ci["cenc"](k + 1) for k in range(ci["w"])]
                        a[0] = tuple(vals) if kind == "tuple" else list(vals)
                        okk = ci["first"](a[0]) == 1
                    except Exception:
                        okk = False
                    if kind == "tuple":
                        tup = okk
                    else:
                        lst = okk
            res[n] = {"codec": cd is not None, "generic": generic, "iadd": hasattr(c, "__iadd__"),
                      "convert": ct[0].__name__ if ct else None, "convert_targets": targets, "settuple": tup, "setlist": lst,
                      "copy_protocol": hasattr(c, "__copy__") and hasattr(c, "__deepcopy__"),
                      "comp": None if ci is None else {"w": ci["w"], "names": list(ci["names"]), "ccls": ci["ccls"],
                                                       "elemset": elem_attr_writable(imath, n, ci)}}
        json.dump(res, sys.stdout)
    else:
        serve(RealExec(a.cls), sys.stdin, sys.stdout, a.flush)


if __name__ == "__main__":
    main()
