#!/usr/bin/env python3
"""C19 harness: executes op lines (the protocol of lean/Driver/FixedArray.lean)

  --mode real [--cls IntArray]   against the REAL imath module (run under tools.pyimath.PYTHON + env())
  --mode spec                    against plain Python lists (the specification: CPython's own list /
                                 slice semantics; views are (shared base list, selected indices))
  --mode classes                 list the FixedArray classes of the module with their capabilities (JSON)

and prints one canonical line per op: `<res>;<dump>`.
`<res>` = ok | int n | new id | str s | err <PyClass>:<kind>;  dump = every live 1-D array as w[..]/r[..].
In spec mode a line is prefixed `alias ` when the operation reads from the buffer it writes (outside the
property's quantifier: list semantics evaluate the right-hand side first)."""
import sys, json, argparse, re


# ----------------------------------------------------------------------------------------------
# parsing

def p_opt(s):
    return None if s == "N" else int(s)


def p_idx(s):
    t = s.split(":")
    if t[0] == "i":
        return int(t[1])
    return slice(p_opt(t[1]), p_opt(t[2]), p_opt(t[3]))


def p_vals(s):
    return [] if s == "-" else [int(x) for x in s.split(",")]


def show(l):
    return "[" + ",".join(str(x) for x in l) + "]"


ERR_TABLE = [
    ("IndexError", "Index out of range", "indexError"),
    ("IndexError", "Dimensions of source do not match destination", "srcDimMismatch"),
    ("IndexError", "Dimensions of source data do not match destination", "srcDimMismatch"),
    ("ValueError", "read-only", "readOnly"),
    ("ValueError", "either masked or unmasked", "maskDataMismatch"),
    ("ValueError", "Dimensions of source do not match destination", "dimMismatch"),
    ("ValueError", "Masking an already-masked", "maskedMask"),
    ("ValueError", "We don't support setting item masks", "maskedSetMask"),
    ("ValueError", "slice step cannot be zero", "stepZero"),
    ("RuntimeError", "Slice extraction produced invalid", "domainError"),
]


def canon_exc(e):
    cls, msg = type(e).__name__, str(e)
    for c, frag, kind in ERR_TABLE:
        if c == cls and frag in msg:
            return "err %s:%s" % (cls, kind)
    if cls == "ArgumentError":          # Boost.Python overload resolution failed: argument classes do not fit
        return "err ArgumentError:signature"
    return "err %s:%s" % (cls, re.sub(r"\s+", "_", msg)[:80])


class BadRef(Exception):
    pass


# ----------------------------------------------------------------------------------------------
# element encodings for the real module

def make_codec(imath, clsname):
    """(enc, dec, info) for the element type of array class `clsname`: enc(int)->element, dec(element)->int,
    dec(enc(x)) == x, and enc(a)+enc(b) == enc(a+b) where the type has +."""
    base = clsname[:-5]
    scal = {"Int": int, "Float": float, "Double": float, "Short": int, "SignedChar": int, "UnsignedChar": int,
            "UnsignedShort": int, "UnsignedInt": int, "Bool": bool}
    if base in scal:
        f = scal[base]
        return (lambda x: f(x)), (lambda e: int(e)), {"kind": "scalar"}
    el = getattr(imath, base, None)
    if el is None and re.match(r"^C[34][cf]$", base):
        el = getattr(imath, "Color" + base[1:], None)      # C3cArray holds Color3c
    if el is None:
        return None
    cands = []
    m = re.match(r"^V([234])", base)
    if m:
        n = int(m.group(1))
        cands.append((lambda x: el(*[(k + 1) * x for k in range(n)]),
                      lambda e: int(e[0]) if all(e[k] == (k + 1) * e[0] for k in range(n)) else "BAD"))
    if base.startswith("Box"):
        vname = "V" + base[3:]
        V = getattr(imath, vname)
        n = int(base[3])
        cands.append((lambda x: el(V(*[x] * n), V(*[x + 1] * n)),
                      lambda e: int(e.min()[0]) if all(e.max()[k] == e.min()[0] + 1 for k in range(n)) else "BAD"))
    if base.startswith("C3") or base.startswith("C4"):
        n = int(base[1])
        cands.append((lambda x: el(*[x] * n), lambda e: int(e[0]) if all(e[k] == e[0] for k in range(n)) else "BAD"))
    if base.startswith("Euler"):
        cands.append((lambda x: el(x, 2 * x, 3 * x), lambda e: int(e[0]) if (e[1] == 2 * e[0] and e[2] == 3 * e[0]) else "BAD"))
    if base.startswith("Quat"):
        cands.append((lambda x: el(x, 2 * x, 3 * x, 4 * x),
                      lambda e: int(e.r()) if (e.v()[0] == 2 * e.r() and e.v()[2] == 4 * e.r()) else "BAD"))
    m = re.match(r"^M(\d)\d", base)
    if m:
        n = int(m.group(1))
        cands.append((lambda x: el(*[(k + 1) * x for k in range(n * n)]),
                      lambda e: int(e[0][0]) if e[n - 1][n - 1] == n * n * e[0][0] else "BAD"))
    for enc, dec in cands:
        try:
            if dec(enc(7)) == 7 and dec(enc(0)) == 0:
                return enc, dec, {"kind": "class"}
        except Exception:
            continue
    return None


def array_classes(imath):
    """FixedArray classes by introspection: __getitem__/__len__, name ends in Array, and the generic
    FixedArray protocol (makeReadOnly/writable/ifelse)."""
    out = []
    for n in sorted(dir(imath)):
        c = getattr(imath, n)
        if n.endswith("Array") and hasattr(c, "__getitem__") and hasattr(c, "__len__"):
            out.append(n)
    return out


# ----------------------------------------------------------------------------------------------
# real executor

class RealExec:
    def __init__(self, clsname):
        import imath
        self.imath = imath
        self.clsname = clsname
        self.cls = getattr(imath, clsname)
        cd = make_codec(imath, clsname)
        if cd is None:
            raise SystemExit("no codec for " + clsname)
        self.enc, self.dec, _ = cd
        self.conv = convert_target(imath, clsname)
        self.reset()

    def reset(self):
        self.objs = []     # (array, decoder)
        self.d2 = []
        self.mats = []
        self.strs = None

    def ref(self, s):
        i = int(s)
        if i < 0 or i >= len(self.objs):
            raise BadRef()
        return self.objs[i][0]

    def new(self, a, dec=None):
        self.objs.append((a, dec or self.dec))
        return "new %d" % (len(self.objs) - 1)

    def mk(self, cls, vals, enc):
        a = cls(len(vals))
        for i, v in enumerate(vals):
            a[i] = enc(v)
        return a

    def dump(self):
        out = []
        for a, dec in self.objs:
            try:
                vals = [dec(a[i]) for i in range(len(a))]
                out.append(("w" if a.writable() else "r") + show(vals))
            except Exception as e:   # noqa
                out.append("EXC(%s)" % type(e).__name__)
        s = " ".join(out)
        if self.d2:
            s += " | " + " ".join(self.dump2(a) for a in self.d2)
        if self.mats:
            s += " | " + " ".join(self.dumpm(m) for m in self.mats)
        return s

    def dump2(self, a):
        lx, ly = a.size()
        return "%dx%d" % (lx, ly) + show([int(a.item(i, j)) for j in range(ly) for i in range(lx)])

    def dumpm(self, m):
        r, c = m.rows(), m.columns()
        return "%dx%d" % (r, c) + show([int(m[i][j]) for i in range(r) for j in range(c)])

    def run(self, t):
        op = t[0]
        im = self.imath
        if op in ("alloc",):
            return self.new(self.mk(self.cls, p_vals(t[1]), self.enc))
        if op == "alloci":
            return self.new(self.mk(im.IntArray, p_vals(t[1]), int), int)
        if op == "len":
            return "int %d" % len(self.ref(t[1]))
        if op == "getitem":
            i = int(t[1])
            if i < 0 or i >= len(self.objs):
                raise BadRef()
            a, dec = self.objs[i]
            return "int %s" % dec(a[int(t[2])])
        if op == "getslice":
            i = int(t[1]); a = self.ref(t[1])
            return self.new(a[p_idx(t[2])], self.objs[i][1])
        if op == "getmask":
            i = int(t[1]); a = self.ref(t[1])
            return self.new(a[self.ref(t[2])], self.objs[i][1])
        if op == "copy":
            i = int(t[1]); a = self.ref(t[1])
            return self.new(type(a)(a), self.objs[i][1])
        if op == "convert":
            a = self.ref(t[1])
            if self.conv is None or type(a) is not self.cls:
                if type(a) is im.IntArray:
                    return self.new(im.FloatArray(a), int)
                return "err unsupported:convert"
            tcls, tdec = self.conv
            return self.new(tcls(a), tdec)
        if op == "setscalar":
            i = int(t[1]); a = self.ref(t[1])
            a[p_idx(t[2])] = self.enc_for(i)(int(t[3]))
            return "ok"
        if op == "setscalarmask":
            i = int(t[1]); a = self.ref(t[1])
            a[self.ref(t[2])] = self.enc_for(i)(int(t[3]))
            return "ok"
        if op == "setvector":
            a = self.ref(t[1]); d = self.ref(t[3])
            a[p_idx(t[2])] = d
            return "ok"
        if op == "setvectormask":
            a = self.ref(t[1]); m = self.ref(t[2]); d = self.ref(t[3])
            a[m] = d
            return "ok"
        if op == "ifelses":
            i = int(t[1]); a = self.ref(t[1])
            return self.new(a.ifelse(self.ref(t[2]), self.enc_for(i)(int(t[3]))), self.objs[i][1])
        if op == "ifelsev":
            i = int(t[1]); a = self.ref(t[1])
            return self.new(a.ifelse(self.ref(t[2]), self.ref(t[3])), self.objs[i][1])
        if op == "ro":
            self.ref(t[1]).makeReadOnly()
            return "ok"
        if op == "iadds":
            i = int(t[1]); a = self.ref(t[1])
            a.__iadd__(self.enc_for(i)(int(t[2])))
            return "ok"
        if op == "iaddv":
            a = self.ref(t[1]); d = self.ref(t[2])
            a.__iadd__(d)
            return "ok"
        if op == "d2":
            return self.run2d(t[1:])
        if op == "m":
            return self.runmat(t[1:])
        return "bad"

    def run_str(self, t):
        """string array ops; returns the whole output line"""
        im = self.imath
        dump = lambda: "[" + ",".join(self.strs[i] for i in range(len(self.strs))) + "]"
        try:
            if t[0] == "new":
                self.strs = im.StringArray(t[2], int(t[1]))
                return "ok;" + dump()
            if t[0] == "set":
                self.strs[int(t[1])] = t[2]
                return "ok;" + dump()
            if t[0] == "get":
                return "str " + self.strs[int(t[1])] + ";" + dump()
        except Exception:
            return "err;" + dump()
        return "bad"

    def enc_for(self, i):
        dec = self.objs[i][1]
        return int if dec is int else self.enc

    # ---- FixedArray2D (IntArray2D) and FixedMatrix (IntMatrix)
    def r2(self, s):
        i = int(s)
        if i < 0 or i >= len(self.d2):
            raise BadRef()
        return self.d2[i]

    def rm(self, s):
        i = int(s)
        if i < 0 or i >= len(self.mats):
            raise BadRef()
        return self.mats[i]

    def run2d(self, t):
        im = self.imath
        op = t[0]
        if op == "alloc":
            lx, ly, vals = int(t[1]), int(t[2]), p_vals(t[3])
            a = im.IntArray2D(lx, ly)
            for j in range(ly):
                for i in range(lx):
                    a[i, j] = vals[j * lx + i]
            self.d2.append(a)
            return "new %d" % (len(self.d2) - 1)
        if op == "item":
            return "int %d" % self.r2(t[1]).item(int(t[2]), int(t[3]))
        if op == "getslice":
            self.d2.append(self.r2(t[1])[p_idx(t[2]), p_idx(t[3])])
            return "new %d" % (len(self.d2) - 1)
        if op == "setscalar":
            self.r2(t[1])[p_idx(t[2]), p_idx(t[3])] = int(t[4])
            return "ok"
        if op == "setvector":
            self.r2(t[1])[p_idx(t[2]), p_idx(t[3])] = self.r2(t[4])
            return "ok"
        if op == "set1d":
            self.r2(t[1])[p_idx(t[2]), p_idx(t[3])] = self.ref(t[4])
            return "ok"
        if op == "getmask":
            self.d2.append(self.r2(t[1])[self.r2(t[2])])
            return "new %d" % (len(self.d2) - 1)
        if op == "setscalarmask":
            self.r2(t[1])[self.r2(t[2])] = int(t[3])
            return "ok"
        if op == "setvectormask":
            self.r2(t[1])[self.r2(t[2])] = self.r2(t[3])
            return "ok"
        return "bad"

    def runmat(self, t):
        im = self.imath
        op = t[0]
        if op == "alloc":
            r, c, vals = int(t[1]), int(t[2]), p_vals(t[3])
            m = im.IntMatrix(r, c)
            for i in range(r):
                row = m[i]
                for j in range(c):
                    row[j] = vals[i * c + j]
            self.mats.append(m)
            return "new %d" % (len(self.mats) - 1)
        if op == "row":
            return self.new(self.rm(t[1])[int(t[2])], int)
        if op == "getslice":
            self.mats.append(self.rm(t[1])[p_idx(t[2])])
            return "new %d" % (len(self.mats) - 1)
        if op == "setscalar":
            self.rm(t[1])[p_idx(t[2])] = int(t[3])
            return "ok"
        if op == "setvector":
            self.rm(t[1])[p_idx(t[2])] = self.ref(t[3])
            return "ok"
        if op == "setmatrix":
            self.rm(t[1])[p_idx(t[2])] = self.rm(t[3])
            return "ok"
        return "bad"


def convert_target(imath, clsname):
    """a different array class constructible from `clsname` (the converting constructor), with its decoder"""
    src = getattr(imath, clsname)
    cd = make_codec(imath, clsname)
    if cd is None:
        return None
    enc, dec, _ = cd
    probe = src(1)
    try:
        probe[0] = enc(3)
    except Exception:
        return None
    prefer = {"IntArray": ["FloatArray", "DoubleArray"], "FloatArray": ["DoubleArray", "IntArray"],
              "DoubleArray": ["FloatArray", "IntArray"]}
    fam = re.match(r"^(V\d|C\d|M\d\d|Box\d|Quat|Euler)", clsname)
    names = prefer.get(clsname, []) + ([n for n in array_classes(imath) if fam and n.startswith(fam.group(1))] if fam else [])
    for n in names:
        if n == clsname or n in ("StringArray", "WstringArray") or n.startswith("V") and not n[1].isdigit():
            continue
        tcls = getattr(imath, n)
        tcd = make_codec(imath, n)
        if tcd is None:
            continue
        try:
            r = tcls(probe)
            if len(r) == 1 and tcd[1](r[0]) == 3:
                return tcls, tcd[1]
        except Exception:
            continue
    return None


# ----------------------------------------------------------------------------------------------
# specification executor: Python lists

class SV:
    __slots__ = ("base", "sel", "ulen", "writable")

    def __init__(self, base, sel=None, ulen=0, writable=True):
        self.base, self.sel, self.ulen, self.writable = base, sel, ulen, writable

    def tolist(self):
        return list(self.base) if self.sel is None else [self.base[i] for i in self.sel]

    def positions(self):
        return list(range(len(self.base))) if self.sel is None else list(self.sel)

    def __len__(self):
        return len(self.base) if self.sel is None else len(self.sel)


class SpecErr(Exception):
    def __init__(self, kind, cls="ValueError"):
        self.kind, self.cls = kind, cls


class SpecExec:
    def __init__(self, quirks=False):
        # quirks (a set, used ONLY by the random generator to keep its view numbering in step with the real
        # module) reproduces known rejections of the code as written: "slice" = empty backward slices whose
        # start normalises to -1, "ifelse" = ifelse on a read-only source
        self.quirks = quirks
        self.reset()

    def reset(self):
        self.objs = []
        self.d2 = []
        self.mats = []
        self.strs = []
        self.alias = False

    def ref(self, s):
        i = int(s)
        if i < 0 or i >= len(self.objs):
            raise BadRef()
        return self.objs[i]

    def new(self, v):
        self.objs.append(v)
        return "new %d" % (len(self.objs) - 1)

    def dump(self):
        return " ".join(("w" if o.writable else "r") + show(o.tolist()) for o in self.objs) + self.dump_extra()

    def sel_of(self, v, idx):
        """positions (into v) selected by a Python subscript — CPython's own semantics"""
        r = range(len(v))
        if isinstance(idx, int):
            try:
                return [r[idx]]
            except IndexError:
                raise SpecErr("indexError", "IndexError")
        if self.quirks and "slice" in self.quirks and idx.step is not None and idx.step < 0 and idx.indices(len(v))[0] == -1:
            raise SpecErr("domainError", "RuntimeError")
        try:
            return list(r[idx])
        except ValueError:
            raise SpecErr("stepZero")

    def check_alias(self, v, *others):
        if any(o.base is v.base for o in others):
            self.alias = True

    def run(self, t):
        op = t[0]
        self.alias = False
        if op in ("alloc", "alloci"):
            return self.new(SV(p_vals(t[1])))
        if op == "len":
            return "int %d" % len(self.ref(t[1]))
        if op == "getitem":
            v = self.ref(t[1])
            try:
                return "int %d" % v.tolist()[int(t[2])]
            except IndexError:
                raise SpecErr("indexError", "IndexError")
        if op == "getslice":
            v = self.ref(t[1]); idx = p_idx(t[2])
            l = v.tolist()
            if self.quirks:
                self.sel_of(v, idx)
            try:
                return self.new(SV(l[idx] if isinstance(idx, slice) else [l[idx]]))
            except ValueError:
                raise SpecErr("stepZero")
            except IndexError:
                raise SpecErr("indexError", "IndexError")
        if op == "getmask":
            v = self.ref(t[1]); m = self.ref(t[2])
            if v.sel is not None:
                raise SpecErr("maskedMask")          # documented restriction
            if len(m) != len(v):
                raise SpecErr("dimMismatch")
            bits = m.tolist()
            return self.new(SV(v.base, [i for i in range(len(v)) if bits[i] != 0], len(v), v.writable))
        if op == "copy":
            v = self.ref(t[1])
            return self.new(SV(v.base, None if v.sel is None else list(v.sel), v.ulen, v.writable))
        if op == "convert":
            return self.new(SV(self.ref(t[1]).tolist()))
        if op == "setscalar":
            v = self.ref(t[1])
            if not v.writable:
                raise SpecErr("readOnly")
            pos = v.positions()
            for k in self.sel_of(v, p_idx(t[2])):
                v.base[pos[k]] = int(t[3])
            return "ok"
        if op == "setscalarmask":
            v = self.ref(t[1]); m = self.ref(t[2])
            if not v.writable:
                raise SpecErr("readOnly")
            self.check_alias(v, m)
            bits = m.tolist(); pos = v.positions()
            if len(m) == len(v):
                ks = [i for i in range(len(v)) if bits[i] != 0]
            elif v.sel is not None and len(m) == v.ulen:
                ks = list(range(len(v)))      # extension: mask of the unmasked length on a masked reference
            else:
                raise SpecErr("dimMismatch")
            for k in ks:
                v.base[pos[k]] = int(t[3])
            return "ok"
        if op == "setvector":
            v = self.ref(t[1]); d = self.ref(t[3])
            if not v.writable:
                raise SpecErr("readOnly")
            self.check_alias(v, d)
            ks = self.sel_of(v, p_idx(t[2]))
            data = d.tolist()
            if len(data) != len(ks):
                raise SpecErr("srcDimMismatch", "IndexError")
            pos = v.positions()
            for n, k in enumerate(ks):
                v.base[pos[k]] = data[n]
            return "ok"
        if op == "setvectormask":
            v = self.ref(t[1]); m = self.ref(t[2]); d = self.ref(t[3])
            if not v.writable:
                raise SpecErr("readOnly")
            if v.sel is not None:
                raise SpecErr("maskedSetMask")        # documented restriction
            self.check_alias(v, m, d)
            if len(m) != len(v):
                raise SpecErr("dimMismatch")
            bits = m.tolist(); data = d.tolist()
            ks = [i for i in range(len(v)) if bits[i] != 0]
            if len(data) == len(v):
                src = [data[k] for k in ks]
            elif len(data) == len(ks):
                src = data
            else:
                raise SpecErr("maskDataMismatch")
            for n, k in enumerate(ks):
                v.base[k] = src[n]
            return "ok"
        if op in ("ifelses", "ifelsev"):
            v = self.ref(t[1]); c = self.ref(t[2])
            if len(c) != len(v):
                raise SpecErr("dimMismatch")
            a = v.tolist(); bits = c.tolist()
            if self.quirks and "ifelse" in self.quirks and not v.writable and any(bits):
                raise SpecErr("readOnly")
            if op == "ifelsev":
                o = self.ref(t[3])
                if len(o) != len(v):
                    raise SpecErr("dimMismatch")
                b = o.tolist()
            else:
                b = [int(t[3])] * len(v)
            return self.new(SV([a[i] if bits[i] != 0 else b[i] for i in range(len(v))]))
        if op == "ro":
            self.ref(t[1]).writable = False
            return "ok"
        if op == "iadds":
            v = self.ref(t[1])
            if not v.writable:
                raise SpecErr("readOnly")
            for p in v.positions():
                v.base[p] += int(t[2])
            return "ok"
        if op == "iaddv":
            v = self.ref(t[1]); d = self.ref(t[2])
            if len(d) != len(v) and not (v.sel is not None and len(d) == v.ulen):
                raise SpecErr("dimMismatch")
            if not v.writable:
                raise SpecErr("readOnly")
            self.check_alias(v, d)
            data = d.tolist(); pos = v.positions()
            if len(d) == len(v) and not (v.sel is not None and len(d) == v.ulen):
                src = data
            else:
                src = [data[p] for p in pos]   # extension: right-hand side of the unmasked length
            for n, p in enumerate(pos):
                v.base[p] += src[n]
            return "ok"
        if op == "d2":
            return self.run2d(t[1:])
        if op == "m":
            return self.runmat(t[1:])
        return "bad"

    # ---- nested Python lists: FixedArray2D as L[j][i] (with explicit lengths), FixedMatrix as R[i][j]
    def dump_extra(self):
        s = ""
        if self.d2:
            s += " | " + " ".join("%dx%d" % (lx, ly) + show([L[j][i] for j in range(ly) for i in range(lx)])
                                  for (lx, ly, L) in self.d2)
        if self.mats:
            s += " | " + " ".join("%dx%d" % (len(R), c) + show([x for row in R for x in row]) for (c, R) in self.mats)
        return s

    def r2(self, s):
        i = int(s)
        if i < 0 or i >= len(self.d2):
            raise BadRef()
        return self.d2[i]

    def rm(self, s):
        i = int(s)
        if i < 0 or i >= len(self.mats):
            raise BadRef()
        return self.mats[i]

    def sel1(self, n, idx):
        if isinstance(idx, slice) and idx.step is not None and idx.step < 0:
            self.alias = True          # backward slices are outside the 2-D quantifier ("forward slice per dimension")
        return self.sel_of(range(n), idx)

    def run2d(self, t):
        op = t[0]
        if op == "alloc":
            lx, ly, v = int(t[1]), int(t[2]), p_vals(t[3])
            self.d2.append((lx, ly, [[v[j * lx + i] for i in range(lx)] for j in range(ly)]))
            return "new %d" % (len(self.d2) - 1)
        lx, ly, L = self.r2(t[1])
        if op == "item":
            try:
                return "int %d" % L[range(ly)[int(t[3])]][range(lx)[int(t[2])]]
            except IndexError:
                raise SpecErr("indexError", "IndexError")
        if op in ("getslice", "setscalar", "setvector", "set1d"):
            xs = self.sel1(lx, p_idx(t[2])); ys = self.sel1(ly, p_idx(t[3]))
            if op == "getslice":
                self.d2.append((len(xs), len(ys), [[L[j][i] for i in xs] for j in ys]))
                return "new %d" % (len(self.d2) - 1)
            if op == "setscalar":
                for j in ys:
                    for i in xs:
                        L[j][i] = int(t[4])
                return "ok"
            if op == "setvector":
                dx, dy, D = self.r2(t[4])
                if (dx, dy) != (len(xs), len(ys)):
                    raise SpecErr("srcDimMismatch", "IndexError")
                snap = [list(r) for r in D]
                for b, j in enumerate(ys):
                    for a, i in enumerate(xs):
                        L[j][i] = snap[b][a]
                return "ok"
            d = self.ref(t[4]).tolist()
            if len(d) != len(xs) * len(ys):
                raise SpecErr("srcDimMismatch", "IndexError")
            for b, j in enumerate(ys):
                for a, i in enumerate(xs):
                    L[j][i] = d[b * len(xs) + a]
            return "ok"
        mx, my, M = self.r2(t[2])
        if (mx, my) != (lx, ly):
            raise SpecErr("srcDimMismatch", "IndexError")
        if op == "getmask":
            self.d2.append((lx, ly, [[L[j][i] if M[j][i] != 0 else 0 for i in range(lx)] for j in range(ly)]))
            return "new %d" % (len(self.d2) - 1)
        if op == "setscalarmask":
            for j in range(ly):
                for i in range(lx):
                    if M[j][i] != 0:
                        L[j][i] = int(t[3])
            return "ok"
        if op == "setvectormask":
            dx, dy, D = self.r2(t[3])
            if (dx, dy) != (lx, ly):
                raise SpecErr("srcDimMismatch", "IndexError")
            for j in range(ly):
                for i in range(lx):
                    if M[j][i] != 0:
                        L[j][i] = D[j][i]
            return "ok"
        return "bad"

    def runmat(self, t):
        op = t[0]
        if op == "alloc":
            r, c, v = int(t[1]), int(t[2]), p_vals(t[3])
            self.mats.append((c, [[v[i * c + j] for j in range(c)] for i in range(r)]))
            return "new %d" % (len(self.mats) - 1)
        c, R = self.rm(t[1])
        if op == "row":
            try:
                return self.new(SV(R[int(t[2])]))      # the inner list itself: a row is a view
            except IndexError:
                raise SpecErr("indexError", "IndexError")
        rows = self.sel_of(range(len(R)), p_idx(t[2]))
        if op == "getslice":
            self.mats.append((c, [list(R[i]) for i in rows]))
            return "new %d" % (len(self.mats) - 1)
        if op == "setscalar":
            for i in rows:
                R[i][:] = [int(t[3])] * c
            return "ok"
        if op == "setvector":
            d = self.ref(t[3]).tolist()
            if len(d) != c:
                raise SpecErr("srcDimMismatch", "IndexError")
            for i in rows:
                R[i][:] = d
            return "ok"
        if op == "setmatrix":
            dc, D = self.rm(t[3])
            if dc != c or len(D) != len(rows):
                raise SpecErr("srcDimMismatch", "IndexError")
            snap = [list(r) for r in D]
            for k, i in enumerate(rows):
                R[i][:] = snap[k]
            return "ok"
        return "bad"

    def run_str(self, t):
        dump = lambda: "[" + ",".join(self.strs) + "]"
        try:
            if t[0] == "new":
                self.strs = [t[2]] * int(t[1])
                return "ok;" + dump()
            if t[0] == "set":
                self.strs[range(len(self.strs))[int(t[1])]] = t[2]
                return "ok;" + dump()
            if t[0] == "get":
                return "str " + self.strs[int(t[1])] + ";" + dump()
        except Exception:
            return "err;" + dump()
        return "bad"


# ----------------------------------------------------------------------------------------------

def serve(ex, inp, out, flush=False):
    if flush:
        _w = out.write

        def w(x):
            _w(x)
            out.flush()
        inp = iter(inp.readline, "")
    else:
        w = out.write
    for line in inp:
        t = line.split()
        if not t:
            continue
        if t[0] == "reset":
            ex.reset()
            w("reset\n")
            continue
        pre = ""
        if t[0] == "st":
            w(ex.run_str(t[1:]) + "\n")
            continue
        try:
            r = ex.run(t)
            if getattr(ex, "alias", False):
                pre = "alias "
        except BadRef:
            r = "err badRef:badRef"
        except SpecErr as e:
            r = "err %s:%s" % (e.cls, e.kind)
        except Exception as e:  # the real module's exception
            r = canon_exc(e)
        w(pre + r + ";" + ex.dump() + "\n")
    out.flush()


def main():
    ap = argparse.ArgumentParser()
    ap.add_argument("--mode", default="real")
    ap.add_argument("--cls", default="IntArray")
    ap.add_argument("--flush", action="store_true", help="flush after every line (interactive use through pipes)")
    a = ap.parse_args()
    if a.mode == "spec":
        serve(SpecExec(), sys.stdin, sys.stdout, a.flush)
    elif a.mode == "classes":
        import imath
        res = {}
        for n in array_classes(imath):
            c = getattr(imath, n)
            cd = None
            try:
                cd = make_codec(imath, n)
            except Exception:
                cd = None
            generic = all(hasattr(c, m) for m in ("makeReadOnly", "writable", "ifelse"))
            ct = None
            if cd and generic:
                try:
                    ct = convert_target(imath, n)
                except Exception:
                    ct = None
            res[n] = {"codec": cd is not None, "generic": generic, "iadd": hasattr(c, "__iadd__"),
                      "convert": ct[0].__name__ if ct else None}
        json.dump(res, sys.stdout)
    else:
        serve(RealExec(a.cls), sys.stdin, sys.stdout, a.flush)


if __name__ == "__main__":
    main()
