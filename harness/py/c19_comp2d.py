#!/usr/bin/env python3
"""C19: component arrays `.r .g .b .a` of the 2-D colour arrays (`Color4Array2D_get`, the 2-D copy of the seven
1-D component getters) on the REAL imath module: the component array has the array's size, element (i,j) is component
k of element (i,j), a write through it lands in that component of that element and nowhere else, slices of it select
the same cells as slices of nested lists.  JSON on stdout: {"cases": n, "bad": [...]}"""
import sys, json, itertools


def main():
    import imath
    out = {"cases": 0, "bad": [], "classes": []}
    for cname in sorted(n for n in dir(imath) if n.startswith("Color4") and n.endswith("Array2D")):
        C = getattr(imath, cname)
        isf = cname.startswith("Color4f")
        try:
            getattr(C(1, 1), "r")
        except TypeError as e:      # FixedArray2D<unsigned char> has no Python class: the property cannot be used at all
            out.setdefault("unusable", {})[cname] = str(e)[:90]
            continue
        out["classes"].append(cname)
        for (lx, ly) in ((0, 0), (1, 1), (3, 2), (2, 3)):
            def build():
                c = C(lx, ly)
                for j in range(ly):
                    for i in range(lx):
                        e = c.item(i, j)
                        for k in range(4):
                            e[k] = 10 * (j * lx + i) + k + 1
                return c

            def snapshot(c):
                return [[tuple(int(c.item(i, j)[k]) for k in range(4)) for i in range(lx)] for j in range(ly)]
            for k, name in enumerate("rgba"):
                c = build()
                want = snapshot(c)
                v = getattr(c, name)
                out["cases"] += 1
                if tuple(v.size()) != (lx, ly):
                    out["bad"].append({"what": "%s(%d,%d).%s size" % (cname, lx, ly, name), "got": list(v.size())})
                    continue
                got = [[int(v.item(i, j)) for i in range(lx)] for j in range(ly)]
                exp = [[want[j][i][k] for i in range(lx)] for j in range(ly)]
                if got != exp:
                    out["bad"].append({"what": "%s(%d,%d).%s reads" % (cname, lx, ly, name), "got": got, "expected": exp})
                # every forward slice pair at small scope reads the nested-list selection
                for sx, sy in itertools.product([slice(None), slice(1, None), slice(None, None, 2), slice(0, 1)], repeat=2):
                    out["cases"] += 1
                    s = v[sx, sy]
                    g = [[int(s.item(i, j)) for i in range(s.size()[0])] for j in range(s.size()[1])]
                    e = [row[sx] for row in exp[sy]]
                    if g != e and not (g == [] and all(r == [] for r in e)) and not (e == [] and all(r == [] for r in g)):
                        out["bad"].append({"what": "%s(%d,%d).%s[%s,%s]" % (cname, lx, ly, name, sx, sy), "got": g, "expected": e})
                # a write through the component array lands in component k of element (i,j) and nowhere else
                for j in range(ly):
                    for i in range(lx):
                        out["cases"] += 1
                        c = build()
                        v = getattr(c, name)
                        v[i, j] = 99.0 if isf else 99
                        after = snapshot(c)
                        exp2 = [[tuple(99 if (a, b, q) == (i, j, k) else want[b][a][q] for q in range(4)) for a in range(lx)] for b in range(ly)]
                        if after != exp2:
                            out["bad"].append({"what": "%s(%d,%d).%s[%d,%d] = 99" % (cname, lx, ly, name, i, j), "got": after, "expected": exp2})
    json.dump(out, sys.stdout)


if __name__ == "__main__":
    main()
