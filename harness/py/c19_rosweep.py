#!/usr/bin/env python3
"""C19 read-only mutator sweep on the REAL imath module (run under tools.pyimath.PYTHON + env()).

  c19_rosweep.py list            -> JSON list of the classes that have makeReadOnly (by introspection) and of
                                    array-like classes that do not
  c19_rosweep.py run <Class>     -> JSON lines, one per (view, entry, key kind, value kind) attempt, then a summary

For a class C with makeReadOnly a small instance is built twice, with the same contents:
  * the WRITABLE twin decides, by observation, what a mutating entry point is: a call (entry point x argument
    kinds, all found by introspection: __setitem__ with int / slice / mask keys x scalar / array values, every
    in-place operator the type defines, every public method called with () / (scalar) / (number) / (array),
    numeric attributes of element references, `.size[...] = ...`) that succeeds and changes the dump of the base;
  * on the READ-ONLY instance (makeReadOnly first, THEN the views are derived from it: masked reference, handle
    copy, slice, element / row reference, `.size` helper, `.size` of a masked reference, ...) the same call must
    raise (element objects of a read-only array are copies: for them only "unchanged" is required) and the dump
    of the base must be identical before and after.
A call that is a mutator on the twin and does not raise, or changes the data, is reported as
  readonly-mutator:<Class>.<view path><entry>(<key kind>,<value kind>)."""
import sys, json, re

INPLACE = ["__iadd__", "__isub__", "__imul__", "__itruediv__", "__idiv__", "__ifloordiv__", "__imod__", "__ipow__",
           "__iand__", "__ior__", "__ixor__", "__ilshift__", "__irshift__", "__imatmul__"]
SKIP_METHODS = {"makeReadOnly"}


def is_arraylike(c):
    return isinstance(c, type) and hasattr(c, "__getitem__") and hasattr(c, "__len__")


def dump(a):
    out = []
    for i in range(len(a)):
        e = a[i]
        if type(e).__name__.endswith("Array") and hasattr(e, "__len__"):
            out.append([str(e[j]) for j in range(len(e))])
        else:
            out.append(str(e))
    return out


class Family:
    """how to build instances / argument values for one class"""

    def __init__(self, imath, cname):
        from c19_harness import make_codec
        self.im, self.cname, self.C = imath, cname, getattr(imath, cname)
        self.kind = "string" if "tring" in cname else ("varray" if re.match(r"^V[A-Z]", cname) and cname[1] != "e" and
                                                       not cname[1].isdigit() else "fixed")
        self.codec = None
        if self.kind == "fixed":
            self.codec = make_codec(imath, cname)
        elif self.kind == "varray":
            probe = self.C(1)
            probe.size[0] = 1
            self.rowcls = type(probe[0])
            self.codec = make_codec(imath, self.rowcls.__name__)

    def elem(self, x):
        if self.kind == "string":
            return "s%d" % x
        if self.codec:
            return self.codec[0](x)
        return None

    def row(self, n, off):
        r = self.rowcls(n)
        for j in range(n):
            r[j] = self.codec[0](off + j)
        return r

    def build(self, n=4, off=10):
        if self.kind == "string":
            a = self.C("a", n)
            for i in range(n):
                a[i] = "s%d" % (off + i)
            return a
        a = self.C(n)
        if self.kind == "varray":
            sz = a.size
            for i in range(n):
                sz[i] = 2
            for i in range(n):
                r = a[i]
                for j in range(2):
                    r[j] = self.codec[0](off + 2 * i + j)
            return a
        if self.codec:
            for i in range(n):
                a[i] = self.codec[0](off + i)
        return a

    def scalars(self):
        if self.kind == "string":
            return [("str", "zz")]
        if self.kind == "varray":
            return [("row", self.row(2, 70))]
        out = []
        if self.codec:
            out.append(("elem", self.codec[0](77)))
        else:
            out.append(("elem", self.C(1)[0]))
        return out

    def arrays(self, L):
        return [("array", self.build(L, 50))]

    def mask(self, n):
        m = self.im.IntArray(n)
        for i in range(0, n, 2):
            m[i] = 1
        return m


def derive(fam, base):
    """views of `base` (derived AFTER makeReadOnly on the read-only instance): name -> (object, aliases base?)"""
    im = fam.im
    v = {"": base}
    n = len(base)
    m = fam.mask(n)
    try:
        v["[mask]"] = base[m]
    except Exception:
        pass
    try:
        v["copy()"] = type(base)(base)
    except Exception:
        pass
    try:
        v["[0:2]"] = base[0:2]
    except Exception:
        pass
    # `copy.copy` / `copy.deepcopy` (decoratecopy): both wrap the copy constructor, so both must inherit read-only
    import copy as _copy
    if hasattr(base, "__copy__"):
        for nm, f in (("copy.copy()", _copy.copy), ("copy.deepcopy()", _copy.deepcopy)):
            try:
                v[nm] = f(base)
            except Exception:
                pass
    try:
        e = base[1]
        if not isinstance(e, (int, float, str, bool)):
            v["[1]"] = e
    except Exception:
        pass
    # component arrays (`Vec3Array_get` and its copies): of the array itself and of its masked reference
    for nm in ("x", "y", "z", "w", "r", "g", "b", "a", "min", "max"):
        for src in ("", "[mask]"):
            if src not in v:
                continue
            try:
                c = getattr(v[src], nm)
            except (AttributeError, TypeError):      # no such component / its array type has no Python class
                continue
            if hasattr(c, "__len__") and hasattr(c, "__getitem__") and not callable(c):
                v[src + "." + nm] = c
    if hasattr(base, "size") and not callable(getattr(base, "size")):
        v[".size"] = base.size
        if "[mask]" in v:
            v["[mask].size"] = v["[mask]"].size
            try:
                v["[mask][0]"] = v["[mask]"][0]
            except Exception:
                pass
    return v


def attempts(fam, vname, o):
    """(entry, key kind, value kind, thunk) for one view object; argument values are rebuilt for every call"""
    im = fam.im
    out = []
    n = len(o) if hasattr(o, "__len__") else 0
    is_size = vname.endswith(".size")
    is_elem = vname.endswith("]") and not vname.endswith("[mask]") and not vname.endswith("[0:2]") and not hasattr(o, "makeReadOnly")

    def keys():
        ks = [("int", lambda: 1 if n > 1 else 0), ("int-neg", lambda: -1), ("slice", lambda: slice(0, 2)),
              ("slice-step", lambda: slice(None, None, 2)), ("mask", lambda: fam.mask(n))]
        return ks

    if is_size:
        vals = [("int", lambda L: 5), ("IntArray", lambda L: mk_ints(im, L, 3))]
        nn = 4
        for kk, kf in [("int", lambda: 1), ("slice", lambda: slice(0, 2)), ("mask", lambda: fam.mask(nn)),
                       ("mask-short", lambda: fam.mask(2))]:
            for vk, vf in vals:
                for L in (1, 2, 4):
                    out.append(("__setitem__", kk, "%s%s" % (vk, "" if vk == "int" else "[%d]" % L),
                                (lambda kf=kf, vf=vf, L=L: lambda ob: ob.__setitem__(kf(), vf(L)))()))
        return out
    if is_elem or (not hasattr(o, "makeReadOnly") and not hasattr(o, "__setitem__")):
        # an element object (V3f, M44f, Box3f, ...): in-place operators, public methods, numeric attributes
        for op in INPLACE:
            if hasattr(type(o), op):
                for vk, vf in (("number", lambda: 2), ("float", lambda: 2.0), ("same", lambda: type(o)(o))):
                    out.append((op, "-", vk, (lambda op=op, vf=vf: lambda ob: getattr(ob, op)(vf()))()))
        for name in dir(o):
            if name.startswith("_"):
                continue
            try:
                att = getattr(o, name)
            except Exception:
                continue
            if callable(att):
                for vk, args in (("()", lambda: ()), ("number", lambda: (2,)), ("float", lambda: (0.5,))):
                    out.append((name, "-", vk, (lambda name=name, args=args: lambda ob: getattr(ob, name)(*args()))()))
            elif isinstance(att, (int, float)) and not isinstance(att, bool):
                out.append(("setattr:" + name, "-", "number", (lambda name=name: lambda ob: setattr(ob, name, getattr(ob, name) + 1))()))
        if hasattr(type(o), "__setitem__"):
            out.append(("__setitem__", "int", "number", lambda ob: ob.__setitem__(0, 5)))
        return out
    # an array view
    if hasattr(type(o), "__setitem__"):
        for kk, kf in keys():
            for vk, v in fam.scalars():
                out.append(("__setitem__", kk, vk, (lambda kf=kf, vk=vk: lambda ob: ob.__setitem__(kf(), dict(fam.scalars())[vk]))()))
            # plain numbers: the value kind of a COMPONENT array (`.x`, `.r`, ...) of a class-typed array
            out.append(("__setitem__", kk, "number", (lambda kf=kf: lambda ob: ob.__setitem__(kf(), 5))()))
            out.append(("__setitem__", kk, "float", (lambda kf=kf: lambda ob: ob.__setitem__(kf(), 5.0))()))
            for L in sorted({n, (n + 1) // 2, 2, 1}):
                for vk, _ in fam.arrays(1):
                    out.append(("__setitem__", kk, "%s[%d]" % (vk, L),
                                (lambda kf=kf, L=L: lambda ob: ob.__setitem__(kf(), fam.arrays(L)[0][1]))()))
    for op in INPLACE:
        if hasattr(type(o), op):
            for vk, _ in fam.scalars():
                out.append((op, "-", vk, (lambda op=op, vk=vk: lambda ob: getattr(ob, op)(dict(fam.scalars())[vk]))()))
            out.append((op, "-", "number", (lambda op=op: lambda ob: getattr(ob, op)(2))()))
            out.append((op, "-", "float", (lambda op=op: lambda ob: getattr(ob, op)(2.0))()))
            for L in sorted({n, 4}):
                out.append((op, "-", "array[%d]" % L, (lambda op=op, L=L: lambda ob: getattr(ob, op)(fam.arrays(L)[0][1]))()))
    for name in dir(o):
        if name.startswith("_") or name in SKIP_METHODS:
            continue
        try:
            att = getattr(o, name)
        except Exception:
            continue
        if not callable(att):
            continue
        out.append((name, "-", "()", (lambda name=name: lambda ob: getattr(ob, name)())()))
        out.append((name, "-", "number", (lambda name=name: lambda ob: getattr(ob, name)(2))()))
        for vk, _ in fam.scalars():
            out.append((name, "-", vk, (lambda name=name, vk=vk: lambda ob: getattr(ob, name)(dict(fam.scalars())[vk]))()))
        out.append((name, "-", "array[%d]" % n, (lambda name=name: lambda ob: getattr(ob, name)(fam.arrays(n)[0][1]))()))
    return out


def mk_ints(im, L, x):
    a = im.IntArray(L)
    for i in range(L):
        a[i] = x
    return a


def run_class(cname):
    import imath
    fam = Family(imath, cname)
    w = sys.stdout.write
    probe = fam.build()
    views = sorted(derive(fam, probe))
    triples = mutators = 0
    for vname in views:
        att = attempts(fam, vname, derive(fam, fam.build())[vname])
        for k, (entry, kk, vk, thunk) in enumerate(att):
            # 1. writable twin: is the call valid, and does it change the base?
            bw = fam.build()
            vw = derive(fam, bw).get(vname)
            if vw is None:
                continue
            before = dump(bw)
            try:
                thunk(vw)
                ok_w = True
            except BaseException as e:   # noqa: invalid argument combination for this entry point
                ok_w = False
            if not ok_w:
                continue
            changed_w = dump(bw) != before
            triples += 1
            if not changed_w:
                continue
            mutators += 1
            # 2. read-only instance: makeReadOnly, then derive the views from it
            br = fam.build()
            br.makeReadOnly()
            vr = derive(fam, br).get(vname)
            if vr is None:
                continue
            before = dump(br)
            w(json.dumps({"try": [cname, vname, entry, kk, vk]}) + "\n")
            sys.stdout.flush()
            raised = None
            try:
                thunk(vr)
            except BaseException as e:
                raised = type(e).__name__ + ": " + str(e)[:80]
            after = dump(br)
            # an element of a read-only array is handed out BY VALUE (copy_const_reference): mutating that copy
            # need not raise, it only must leave the array alone.  Arrays, rows and size helpers must raise.
            must_raise = hasattr(vr, "writable") or vname.endswith(".size")
            if (raised is None and must_raise) or after != before:
                w(json.dumps({"defect": "readonly-mutator:%s%s.%s(%s,%s)" % (cname, vname, entry, kk, vk) if vname else
                              "readonly-mutator:%s.%s(%s,%s)" % (cname, entry, kk, vk),
                              "class": cname, "view": vname, "entry": entry, "key": kk, "value": vk, "raised": raised,
                              "before": before, "after": after}) + "\n")
    w(json.dumps({"summary": {"class": cname, "views": views, "valid_triples": triples, "mutating_triples": mutators}}) + "\n")


def main():
    if sys.argv[1] == "list":
        import imath
        ro, noro = [], []
        for n in sorted(dir(imath)):
            c = getattr(imath, n)
            if isinstance(c, type) and hasattr(c, "makeReadOnly"):
                ro.append(n)
            elif is_arraylike(c) and (n.endswith("Array") or n.endswith("Array2D") or n.endswith("Matrix")):
                noro.append(n)
        json.dump({"with_makeReadOnly": ro, "arraylike_without_makeReadOnly": noro}, sys.stdout)
    else:
        run_class(sys.argv[2])


if __name__ == "__main__":
    main()
